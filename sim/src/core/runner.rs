//! Batch driver: seeds → runs → oracle verdicts → minimised replay files →
//! evidence. Shared by every engine.

use std::collections::BTreeMap;
use std::collections::BTreeSet;
use std::io::Read as _;
use std::io::Write as _;
use std::path::Path;
use std::path::PathBuf;
use std::time::Instant;

use serde_json::Value;
use serde_json::json;

use super::chooser::Chooser;
use super::chooser::derive_seed;

#[derive(Clone, Debug)]
pub struct Violation {
    pub property: String,
    pub invariant: String,
    /// Identifies the failing call site / canonical history for
    /// known_findings matching.
    pub key: String,
    pub message: String,
    /// Event sequence number at which the invariant failed (0 = at
    /// quiescence).
    pub at_event: u64,
}

#[derive(Default)]
pub struct RunOutcome {
    pub violations: Vec<Violation>,
    pub signature: u64,
    pub nontrivial: bool,
    pub faults: BTreeMap<String, u64>,
    pub probes: BTreeMap<String, u64>,
    pub events: u64,
    pub sim_ticks: u64,
    pub trace: Vec<String>,
    pub choices: Vec<u32>,
    pub harness_error: Option<String>,
    pub config: String,
}

impl RunOutcome {
    pub fn probe(&mut self, name: &str, n: u64) {
        if n > 0 {
            *self.probes.entry(name.to_string()).or_insert(0) += n;
        }
    }
    pub fn fault(&mut self, name: &str, n: u64) {
        if n > 0 {
            *self.faults.entry(name.to_string()).or_insert(0) += n;
        }
    }
    pub fn violate(&mut self, property: &str, invariant: &str, key: String, message: String, at_event: u64) {
        self.violations.push(Violation {
            property: property.to_string(),
            invariant: invariant.to_string(),
            key,
            message,
            at_event,
        });
    }
}

#[derive(Clone, Copy, PartialEq, Eq, Debug)]
pub enum Tier {
    Quick,
    Thorough,
}

impl Tier {
    pub fn name(self) -> &'static str {
        match self {
            Self::Quick => "quick",
            Self::Thorough => "thorough",
        }
    }
}

pub struct Budget {
    pub runs: u64,
    pub max_seconds: u64,
}

pub trait Engine: Sync {
    fn name(&self) -> &'static str;
    fn properties(&self) -> Vec<&'static str>;
    /// One simulated run. `scratch` is an empty directory private to the run.
    fn run(&self, prop: &str, chooser: Chooser, scratch: &Path) -> RunOutcome;
    fn budget(&self, prop: &str, tier: Tier) -> Budget;
    fn level(&self, _prop: &str) -> &'static str {
        "exploration"
    }
    fn rule(&self, prop: &str) -> String;
    fn components_real(&self) -> Vec<&'static str>;
    fn components_stub(&self) -> Vec<&'static str>;
    fn assumptions(&self, prop: &str) -> Vec<String>;
    fn fault_kinds(&self) -> Vec<&'static str>;
}

pub fn verif_dir() -> PathBuf {
    std::env::var_os("VERIF_DIR")
        .map(PathBuf::from)
        .unwrap_or_else(|| PathBuf::from("/verif"))
}

pub fn scratch_base() -> PathBuf {
    let base = if Path::new("/dev/shm").is_dir() {
        PathBuf::from("/dev/shm")
    } else {
        std::env::temp_dir()
    };
    base.join(format!("jjverif-{}", std::process::id()))
}

pub struct Scratch {
    pub path: PathBuf,
}

impl Scratch {
    pub fn new(tag: &str) -> Self {
        let path = scratch_base().join(tag);
        let _ = std::fs::remove_dir_all(&path);
        std::fs::create_dir_all(&path).expect("create scratch");
        Self { path }
    }
}

impl Drop for Scratch {
    fn drop(&mut self) {
        // JJSIM_KEEP_SCRATCH=1 keeps the directory for post-mortem inspection
        if std::env::var_os("JJSIM_KEEP_SCRATCH").is_none() {
            let _ = std::fs::remove_dir_all(&self.path);
        }
    }
}

pub fn cleanup_scratch_base() {
    if std::env::var_os("JJSIM_KEEP_SCRATCH").is_none() {
        let _ = std::fs::remove_dir_all(scratch_base());
    }
}

// ---------------------------------------------------------------------------
// known findings

pub struct KnownFindings {
    pub known: Vec<(String, String, String)>, // property, key, what
}

impl KnownFindings {
    pub fn load() -> Self {
        let mut known = vec![];
        let path = verif_dir().join("known_findings.jsonl");
        if let Ok(text) = std::fs::read_to_string(path) {
            for line in text.lines() {
                let line = line.trim();
                if line.is_empty() {
                    continue;
                }
                if let Ok(v) = serde_json::from_str::<Value>(line)
                    && v["status"] == "known"
                {
                    known.push((
                        v["property"].as_str().unwrap_or("").to_string(),
                        v["key"].as_str().unwrap_or("").to_string(),
                        v["what"].as_str().unwrap_or("").to_string(),
                    ));
                }
            }
        }
        Self { known }
    }

    pub fn matches(&self, v: &Violation) -> Option<&(String, String, String)> {
        self.known
            .iter()
            .find(|(p, k, _)| *p == v.property && *k == v.key)
    }
}

// ---------------------------------------------------------------------------
// one run in a fresh scratch dir

pub fn run_once(engine: &dyn Engine, prop: &str, mut chooser: Chooser, tag: &str) -> RunOutcome {
    let scratch = Scratch::new(tag);
    // HashMap iteration orders inside jj are part of the run: their seed is a
    // recorded choice, and the run executes in a fresh thread so that the
    // thread-local key counter of std starts from zero.
    let hash_seed = chooser.choose(1 << 20) as u64;
    super::rand_seam::set_hash_seed(hash_seed);
    std::thread::scope(|s| {
        std::thread::Builder::new()
            .name("sim-driver".to_string())
            .stack_size(16 << 20)
            .spawn_scoped(s, || engine.run(prop, chooser, &scratch.path))
            .expect("spawn driver")
            .join()
            .unwrap_or_else(|_| RunOutcome {
                harness_error: Some("driver thread panicked".to_string()),
                ..RunOutcome::default()
            })
    })
}

fn first_relevant<'a>(out: &'a RunOutcome, prop: &str, known: &KnownFindings) -> Option<&'a Violation> {
    out.violations
        .iter()
        .find(|v| v.property == prop && known.matches(v).is_none())
}

/// Delta-debugging over the choice list while the same (property, invariant)
/// keeps failing.
pub fn minimise(
    engine: &dyn Engine,
    prop: &str,
    invariant: &str,
    start: Vec<u32>,
    known: &KnownFindings,
    budget_s: u64,
) -> (Vec<u32>, u64) {
    let t0 = Instant::now();
    let mut tries = 0u64;
    let still_fails = |cand: &[u32], tries: &mut u64| -> Option<Vec<u32>> {
        *tries += 1;
        let out = run_once(engine, prop, Chooser::from_choices(cand.to_vec()), "min");
        if out.harness_error.is_some() {
            return None;
        }
        match first_relevant(&out, prop, known) {
            Some(v) if v.invariant == invariant => Some(out.choices.clone()),
            _ => None,
        }
    };
    let mut best = start;
    // Normalise first.
    if let Some(n) = still_fails(&best, &mut tries) {
        best = n;
    } else {
        return (best, tries);
    }
    let mut chunk = (best.len() / 2).max(1);
    while chunk >= 1 && t0.elapsed().as_secs() < budget_s {
        let mut i = 0;
        let mut progressed = false;
        while i < best.len() && t0.elapsed().as_secs() < budget_s {
            let end = (i + chunk).min(best.len());
            // 1. drop the chunk
            let mut cand = best.clone();
            cand.drain(i..end);
            if let Some(n) = still_fails(&cand, &mut tries) {
                if n.len() < best.len() || n < best {
                    best = n;
                    progressed = true;
                    continue;
                }
            }
            // 2. zero the chunk
            if best[i..end].iter().any(|&c| c != 0) {
                let mut cand = best.clone();
                for c in &mut cand[i..end] {
                    *c = 0;
                }
                if let Some(n) = still_fails(&cand, &mut tries)
                    && (n.len() < best.len()
                        || (n.len() == best.len()
                            && n.iter().filter(|&&c| c != 0).count()
                                < best.iter().filter(|&&c| c != 0).count()))
                {
                    best = n;
                    progressed = true;
                }
            }
            i += chunk;
        }
        if chunk == 1 && !progressed {
            break;
        }
        if !progressed {
            chunk /= 2;
        }
        if chunk == 0 {
            break;
        }
    }
    (best, tries)
}

pub fn write_replay(
    engine: &dyn Engine,
    prop: &str,
    base_seed: u64,
    index: u64,
    run_seed: u64,
    out: &RunOutcome,
    v: &Violation,
    min_tries: u64,
    original_len: usize,
) -> PathBuf {
    let dir = verif_dir().join("replays");
    let _ = std::fs::create_dir_all(&dir);
    let path = dir.join(format!("{prop}-{}-{run_seed:016x}.json", engine.name()));
    let doc = json!({
        "property": prop,
        "engine": engine.name(),
        "invariant": v.invariant,
        "key": v.key,
        "message": v.message,
        "at_event": v.at_event,
        "verif_seed": base_seed,
        "run_index": index,
        "run_seed": run_seed,
        "config": out.config,
        "choices": out.choices,
        "original_choice_len": original_len,
        "minimiser_runs": min_tries,
        "trace": out.trace,
    });
    std::fs::write(&path, serde_json::to_vec_pretty(&doc).unwrap()).expect("write replay");
    path
}

// ---------------------------------------------------------------------------
// worker

#[derive(Default)]
pub struct WorkerResult {
    pub evaluations: u64,
    pub nontrivial: u64,
    pub events: u64,
    pub sim_ticks: u64,
    pub faults: BTreeMap<String, u64>,
    pub probes: BTreeMap<String, u64>,
    pub violations: Vec<Value>,
    pub known_hits: BTreeMap<String, u64>,
    pub other_property_violations: BTreeMap<String, u64>,
    pub harness_errors: Vec<String>,
    pub samples: Vec<Value>,
    pub sigs: Vec<(u64, u64, bool)>,
}

pub struct WorkerArgs {
    pub prop: String,
    pub tier: Tier,
    pub seed: u64,
    pub start: u64,
    pub stride: u64,
    pub runs: u64,
    pub max_seconds: u64,
    pub out: PathBuf,
}

pub fn worker_main(engine: &dyn Engine, args: &WorkerArgs) {
    let known = KnownFindings::load();
    let t0 = Instant::now();
    let mut res = WorkerResult::default();
    let mut idx = args.start;
    let min_budget = if args.tier == Tier::Quick { 30 } else { 300 };
    while idx < args.runs {
        if t0.elapsed().as_secs() >= args.max_seconds {
            break;
        }
        let run_seed = derive_seed(args.seed, engine.name(), idx);
        let out = run_once(engine, &args.prop, Chooser::from_seed(run_seed), "run");
        res.evaluations += 1;
        res.events += out.events;
        res.sim_ticks += out.sim_ticks;
        if out.nontrivial {
            res.nontrivial += 1;
        }
        res.sigs.push((idx, out.signature, out.nontrivial));
        for (k, v) in &out.faults {
            *res.faults.entry(k.clone()).or_insert(0) += v;
        }
        for (k, v) in &out.probes {
            *res.probes.entry(k.clone()).or_insert(0) += v;
        }
        if let Some(e) = &out.harness_error {
            if res.harness_errors.len() < 5 {
                res.harness_errors
                    .push(format!("run {idx} seed {run_seed:#x}: {e}"));
            }
        }
        // samples: first non-trivial run, first run with a fault
        let want_sample = (res.samples.is_empty() && out.nontrivial)
            || (res.samples.len() == 1 && out.nontrivial && !out.faults.is_empty());
        if want_sample && args.start == 0 {
            let mut trace = out.trace.clone();
            if trace.len() > 120 {
                trace.truncate(120);
                trace.push("…(truncated)".to_string());
            }
            res.samples.push(json!({
                "run_index": idx,
                "run_seed": run_seed,
                "config": out.config,
                "choices_len": out.choices.len(),
                "trace": trace,
            }));
        }
        for v in &out.violations {
            if v.property != args.prop {
                *res
                    .other_property_violations
                    .entry(format!("{}:{}", v.property, v.invariant))
                    .or_insert(0) += 1;
                continue;
            }
            if let Some((_, key, _)) = known.matches(v) {
                *res.known_hits.entry(key.clone()).or_insert(0) += 1;
            }
        }
        if let Some(v) = first_relevant(&out, &args.prop, &known) {
            if res.violations.len() < 2 {
                let invariant = v.invariant.clone();
                let original_len = out.choices.len();
                let (min_choices, tries) = minimise(
                    engine,
                    &args.prop,
                    &invariant,
                    out.choices.clone(),
                    &known,
                    min_budget,
                );
                let out2 = run_once(
                    engine,
                    &args.prop,
                    Chooser::from_choices(min_choices.clone()),
                    "run",
                );
                let (final_out, final_v) = match first_relevant(&out2, &args.prop, &known) {
                    Some(v2) if v2.invariant == invariant => (&out2, v2.clone()),
                    _ => (&out, v.clone()),
                };
                let path = write_replay(
                    engine,
                    &args.prop,
                    args.seed,
                    idx,
                    run_seed,
                    final_out,
                    &final_v,
                    tries,
                    original_len,
                );
                res.violations.push(json!({
                    "property": final_v.property,
                    "invariant": final_v.invariant,
                    "key": final_v.key,
                    "message": final_v.message,
                    "replay": path.to_string_lossy(),
                    "run_index": idx,
                    "choices_before": original_len,
                    "choices_after": final_out.choices.len(),
                }));
            } else {
                res.violations.push(json!({
                    "property": v.property, "invariant": v.invariant, "key": v.key,
                    "message": v.message, "replay": Value::Null, "run_index": idx,
                }));
            }
            if res.violations.len() >= 5 {
                break;
            }
        }
        idx += args.stride;
    }
    // serialise
    let sig_path = args.out.with_extension("sigs");
    let mut f = std::fs::File::create(&sig_path).expect("sigs");
    let mut buf = Vec::with_capacity(res.sigs.len() * 17);
    for (i, s, nt) in &res.sigs {
        buf.extend_from_slice(&i.to_le_bytes());
        buf.extend_from_slice(&s.to_le_bytes());
        buf.push(u8::from(*nt));
    }
    f.write_all(&buf).expect("sigs");
    let doc = json!({
        "evaluations": res.evaluations,
        "nontrivial": res.nontrivial,
        "events": res.events,
        "sim_ticks": res.sim_ticks,
        "faults": res.faults,
        "probes": res.probes,
        "violations": res.violations,
        "known_hits": res.known_hits,
        "other_property_violations": res.other_property_violations,
        "harness_errors": res.harness_errors,
        "samples": res.samples,
        "wall_s": t0.elapsed().as_secs_f64(),
    });
    std::fs::write(&args.out, serde_json::to_vec(&doc).unwrap()).expect("write worker result");
    cleanup_scratch_base();
}

// ---------------------------------------------------------------------------
// parent

pub struct BatchArgs {
    pub prop: String,
    pub tier: Tier,
    pub seed: u64,
    pub runs: Option<u64>,
    pub workers: u64,
    pub max_seconds: Option<u64>,
    pub write_evidence: bool,
}

fn add_map(dst: &mut BTreeMap<String, u64>, src: &Value) {
    if let Some(obj) = src.as_object() {
        for (k, v) in obj {
            *dst.entry(k.clone()).or_insert(0) += v.as_u64().unwrap_or(0);
        }
    }
}

/// Returns the process exit code.
pub fn batch_main(engine: &dyn Engine, args: &BatchArgs) -> i32 {
    let t0 = Instant::now();
    let budget = engine.budget(&args.prop, args.tier);
    let runs = args.runs.unwrap_or(budget.runs);
    let max_seconds = args.max_seconds.unwrap_or(budget.max_seconds);
    let workers = args.workers.max(1).min(runs.max(1));
    println!(
        "jjsim engine={} property={} tier={} VERIF_SEED={} runs={} workers={} max_seconds={}",
        engine.name(),
        args.prop,
        args.tier.name(),
        args.seed,
        runs,
        workers,
        max_seconds
    );
    let exe = std::env::current_exe().expect("current_exe");
    let tmp = scratch_base().join("batch");
    let _ = std::fs::remove_dir_all(&tmp);
    std::fs::create_dir_all(&tmp).expect("batch dir");
    let mut children = vec![];
    for w in 0..workers {
        let out = tmp.join(format!("w{w}.json"));
        let child = std::process::Command::new(&exe)
            .arg("worker")
            .arg(engine.name())
            .arg("--prop")
            .arg(&args.prop)
            .arg("--tier")
            .arg(args.tier.name())
            .arg("--seed")
            .arg(args.seed.to_string())
            .arg("--start")
            .arg(w.to_string())
            .arg("--stride")
            .arg(workers.to_string())
            .arg("--runs")
            .arg(runs.to_string())
            .arg("--max-seconds")
            .arg(max_seconds.to_string())
            .arg("--out")
            .arg(&out)
            .stdout(std::process::Stdio::null())
            .spawn()
            .expect("spawn worker");
        children.push((child, out));
    }
    let mut evaluations = 0u64;
    let mut nontrivial = 0u64;
    let mut events = 0u64;
    let mut sim_ticks = 0u64;
    let mut faults = BTreeMap::new();
    let mut probes = BTreeMap::new();
    let mut known_hits = BTreeMap::new();
    let mut other = BTreeMap::new();
    let mut violations: Vec<Value> = vec![];
    let mut harness_errors: Vec<String> = vec![];
    let mut samples: Vec<Value> = vec![];
    let mut sigs: Vec<(u64, u64, bool)> = vec![];
    for (mut child, out) in children {
        let status = child.wait().expect("wait");
        if !status.success() {
            harness_errors.push(format!("worker exited with {status}"));
            continue;
        }
        let Ok(text) = std::fs::read_to_string(&out) else {
            harness_errors.push("worker result missing".to_string());
            continue;
        };
        let v: Value = serde_json::from_str(&text).expect("worker json");
        evaluations += v["evaluations"].as_u64().unwrap_or(0);
        nontrivial += v["nontrivial"].as_u64().unwrap_or(0);
        events += v["events"].as_u64().unwrap_or(0);
        sim_ticks += v["sim_ticks"].as_u64().unwrap_or(0);
        add_map(&mut faults, &v["faults"]);
        add_map(&mut probes, &v["probes"]);
        add_map(&mut known_hits, &v["known_hits"]);
        add_map(&mut other, &v["other_property_violations"]);
        if let Some(a) = v["violations"].as_array() {
            violations.extend(a.iter().cloned());
        }
        if let Some(a) = v["harness_errors"].as_array() {
            harness_errors.extend(a.iter().filter_map(|x| x.as_str().map(str::to_string)));
        }
        if let Some(a) = v["samples"].as_array() {
            samples.extend(a.iter().cloned());
        }
        let mut buf = vec![];
        if let Ok(mut f) = std::fs::File::open(out.with_extension("sigs")) {
            let _ = f.read_to_end(&mut buf);
        }
        for rec in buf.chunks_exact(17) {
            let i = u64::from_le_bytes(rec[0..8].try_into().unwrap());
            let s = u64::from_le_bytes(rec[8..16].try_into().unwrap());
            sigs.push((i, s, rec[16] != 0));
        }
    }
    let _ = std::fs::remove_dir_all(&tmp);
    cleanup_scratch_base();
    // distinct signatures + saturation curve
    sigs.sort();
    let mut seen = BTreeSet::new();
    let mut seen_nontrivial = BTreeSet::new();
    let deciles = 10usize;
    let mut curve = vec![0u64; deciles];
    let n = sigs.len().max(1);
    for (pos, (_, s, nt)) in sigs.iter().enumerate() {
        if seen.insert(*s) {
            curve[(pos * deciles / n).min(deciles - 1)] += 1;
        }
        if *nt {
            seen_nontrivial.insert(*s);
        }
    }
    let wall = t0.elapsed().as_secs_f64();
    let known = KnownFindings::load();
    let mut exit = 0;
    for (key, hits) in &known_hits {
        let what = known
            .known
            .iter()
            .find(|(p, k, _)| *p == args.prop && k == key)
            .map(|(_, _, w)| w.clone())
            .unwrap_or_default();
        println!("KNOWN-FINDING: property={} {} (key={}, hits={})", args.prop, what, key, hits);
    }
    for v in &violations {
        if let Some(path) = v["replay"].as_str() {
            println!("VIOLATION property={} replay={}", args.prop, path);
            println!(
                "  invariant={} message={}",
                v["invariant"].as_str().unwrap_or(""),
                v["message"].as_str().unwrap_or("")
            );
        }
        exit = 1;
    }
    if exit == 1 && !violations.iter().any(|v| v["replay"].is_string()) {
        println!("VIOLATION property={} replay=none", args.prop);
    }
    if !harness_errors.is_empty() {
        for e in harness_errors.iter().take(10) {
            eprintln!("HARNESS-ERROR: {e}");
        }
        if exit == 0 {
            exit = 2;
        }
    }
    if samples.is_empty() {
        samples.push(json!({"note": "no non-trivial run in worker 0"}));
    }
    samples.truncate(3);
    let runs_per_hour = if wall > 0.0 { evaluations as f64 / wall * 3600.0 } else { 0.0 };
    let fault_kinds = engine.fault_kinds();
    let mut faults_full = serde_json::Map::new();
    for k in &fault_kinds {
        faults_full.insert(
            (*k).to_string(),
            json!({"fired": faults.get(*k).copied().unwrap_or(0)}),
        );
    }
    for (k, v) in &faults {
        if !faults_full.contains_key(k) {
            faults_full.insert(k.clone(), json!({"fired": v}));
        }
    }
    let last_decile_new = *curve.last().unwrap_or(&0);
    let evidence = json!({
        "property_id": args.prop,
        "tier": args.tier.name(),
        "seed": args.seed,
        "level": engine.level(&args.prop),
        "coverage": {
            "evaluations": evaluations,
            "distinct_nontrivial": seen_nontrivial.len(),
            "distinct_signatures_all": seen.len(),
            "nontrivial_runs": nontrivial,
            "rule": engine.rule(&args.prop),
            "samples": samples,
            "events": events,
            "simulated_ticks": sim_ticks,
            "runs_per_hour": runs_per_hour.round(),
            "seeds_per_hour": runs_per_hour.round(),
            "faults": faults_full,
            "probes": probes,
            "saturation_new_signatures_per_decile": curve,
            "saturation_note": if last_decile_new * 20 > seen.len() as u64 {
                "last decile still discovers >5% of all signatures: schedule space far from saturated at this budget"
            } else {
                "last decile discovers <5% of all signatures"
            },
            "components_real": engine.components_real(),
            "components_stub": engine.components_stub(),
            "other_property_violations_seen": other,
            "known_findings_matched": known_hits,
            "engine": engine.name(),
            "workers": workers,
            "exhaustive": false,
        },
        "assumptions": engine.assumptions(&args.prop),
        "wall_s": wall,
        "violations": violations.len(),
    });
    if args.write_evidence {
        let dir = verif_dir().join("evidence");
        let _ = std::fs::create_dir_all(&dir);
        let path = dir.join(format!("{}.json", args.prop));
        std::fs::write(&path, serde_json::to_vec_pretty(&evidence).unwrap()).expect("evidence");
    }
    println!(
        "done: evaluations={} distinct_nontrivial={} events={} faults={:?} violations={} wall={:.1}s exit={}",
        evaluations,
        seen_nontrivial.len(),
        events,
        faults,
        violations.len(),
        wall,
        exit
    );
    exit
}

/// Replays a recorded run in a fresh process. Exit 1 + VIOLATION line when the
/// same invariant fails again, 2 when it does not (non-reproducible).
pub fn replay_main(engine: &dyn Engine, file: &Path, doc: &Value) -> i32 {
    let prop = doc["property"].as_str().unwrap_or("").to_string();
    let invariant = doc["invariant"].as_str().unwrap_or("").to_string();
    let choices: Vec<u32> = doc["choices"]
        .as_array()
        .map(|a| a.iter().map(|x| x.as_u64().unwrap_or(0) as u32).collect())
        .unwrap_or_default();
    let out = run_once(engine, &prop, Chooser::from_choices(choices), "replay");
    cleanup_scratch_base();
    for line in &out.trace {
        println!("{line}");
    }
    let hit = out
        .violations
        .iter()
        .find(|v| v.property == prop && v.invariant == invariant);
    match hit {
        Some(v) => {
            let same_event = v.at_event == doc["at_event"].as_u64().unwrap_or(0);
            println!(
                "VIOLATION property={} replay={} invariant={} at_event={} same_event_as_recorded={} message={}",
                prop,
                file.display(),
                v.invariant,
                v.at_event,
                same_event,
                v.message
            );
            1
        }
        None => {
            eprintln!("replay did not reproduce {prop}:{invariant}");
            2
        }
    }
}
