//! One integer decides everything: a seeded PRNG behind a single `choose`
//! primitive that records every decision, so a run is a pure function of
//! (code, choice list).

/// splitmix64 step, also used for deriving per-run seeds.
pub fn splitmix64(state: &mut u64) -> u64 {
    *state = state.wrapping_add(0x9E37_79B9_7F4A_7C15);
    let mut z = *state;
    z = (z ^ (z >> 30)).wrapping_mul(0xBF58_476D_1CE4_E5B9);
    z = (z ^ (z >> 27)).wrapping_mul(0x94D0_49BB_1331_11EB);
    z ^ (z >> 31)
}

pub fn derive_seed(base: u64, engine: &str, index: u64) -> u64 {
    let mut s = base ^ 0xA076_1D64_78BD_642F;
    for b in engine.bytes() {
        s = s.wrapping_mul(0x100_0000_01B3) ^ u64::from(b);
    }
    let _ = splitmix64(&mut s);
    s ^= index.wrapping_mul(0xD6E8_FEB8_6659_FD93);
    splitmix64(&mut s)
}

#[derive(Clone)]
struct Xoshiro {
    s: [u64; 4],
}

impl Xoshiro {
    fn new(seed: u64) -> Self {
        let mut st = seed;
        let s = [
            splitmix64(&mut st),
            splitmix64(&mut st),
            splitmix64(&mut st),
            splitmix64(&mut st),
        ];
        Self { s }
    }
    fn next(&mut self) -> u64 {
        let result = self.s[1].wrapping_mul(5).rotate_left(7).wrapping_mul(9);
        let t = self.s[1] << 17;
        self.s[2] ^= self.s[0];
        self.s[3] ^= self.s[1];
        self.s[1] ^= self.s[2];
        self.s[0] ^= self.s[3];
        self.s[2] ^= t;
        self.s[3] = self.s[3].rotate_left(45);
        result
    }
}

/// Source of every decision of a run.
pub struct Chooser {
    rng: Xoshiro,
    replay: Option<Vec<u32>>,
    pos: usize,
    /// Every decision taken so far (the replay file's payload).
    pub record: Vec<u32>,
}

impl Chooser {
    pub fn from_seed(seed: u64) -> Self {
        Self {
            rng: Xoshiro::new(seed),
            replay: None,
            pos: 0,
            record: Vec::new(),
        }
    }

    pub fn from_choices(choices: Vec<u32>) -> Self {
        Self {
            rng: Xoshiro::new(0),
            replay: Some(choices),
            pos: 0,
            record: Vec::new(),
        }
    }

    /// Returns a value in `0..n`. `0` is by convention the simplest outcome
    /// (no fault, same process continues, simplest operation), which is what a
    /// replay list yields once exhausted.
    pub fn choose(&mut self, n: usize) -> usize {
        assert!(n > 0);
        let v = if n == 1 {
            0
        } else if let Some(list) = &self.replay {
            let v = list.get(self.pos).copied().unwrap_or(0) as usize;
            v % n
        } else {
            (self.rng.next() % n as u64) as usize
        };
        if n > 1 {
            self.pos += 1;
            self.record.push(v as u32);
        }
        v
    }

    /// True with probability num/den; "false" is choice 0.
    pub fn chance(&mut self, num: usize, den: usize) -> bool {
        if num == 0 {
            return false;
        }
        let v = self.choose(den);
        // Map so that recorded 0 means false.
        v >= den - num
    }

    pub fn range(&mut self, lo: usize, hi_inclusive: usize) -> usize {
        lo + self.choose(hi_inclusive - lo + 1)
    }

    pub fn pick<'a, T>(&mut self, items: &'a [T]) -> &'a T {
        &items[self.choose(items.len())]
    }

    /// Weighted choice; index 0 should be the simplest alternative.
    pub fn weighted(&mut self, weights: &[usize]) -> usize {
        let total: usize = weights.iter().sum();
        assert!(total > 0);
        let mut v = self.choose(total);
        for (i, w) in weights.iter().enumerate() {
            if v < *w {
                return i;
            }
            v -= *w;
        }
        unreachable!()
    }

    pub fn is_replay(&self) -> bool {
        self.replay.is_some()
    }
}
