//! Seam for the one source of nondeterminism jj offers no hook for: the keys
//! of `std::collections::hash_map::RandomState`. std looks `getrandom` up as a
//! weak symbol ("allows interposition ... to disable randomness for
//! consistency"); this binary exports its own, so every HashMap/HashSet
//! iteration order in jj becomes a function of the run's hash seed (itself a
//! recorded choice) and of how many maps the thread created before.

use std::cell::Cell;
use std::sync::atomic::AtomicU64;
use std::sync::atomic::Ordering;

static HASH_SEED: AtomicU64 = AtomicU64::new(0x5eed);

thread_local! {
    static COUNTER: Cell<u64> = const { Cell::new(0) };
}

pub fn set_hash_seed(seed: u64) {
    HASH_SEED.store(seed, Ordering::SeqCst);
}

fn mix(mut z: u64) -> u64 {
    z = z.wrapping_add(0x9E37_79B9_7F4A_7C15);
    z = (z ^ (z >> 30)).wrapping_mul(0xBF58_476D_1CE4_E5B9);
    z = (z ^ (z >> 27)).wrapping_mul(0x94D0_49BB_1331_11EB);
    z ^ (z >> 31)
}

/// # Safety
/// Same contract as getrandom(2): `buf` must be valid for `len` bytes.
#[unsafe(no_mangle)]
pub unsafe extern "C" fn getrandom(buf: *mut libc::c_void, len: libc::size_t, _flags: libc::c_uint) -> libc::ssize_t {
    let seed = HASH_SEED.load(Ordering::SeqCst);
    let out = unsafe { std::slice::from_raw_parts_mut(buf.cast::<u8>(), len) };
    let mut i = 0;
    while i < len {
        let c = COUNTER.with(|c| {
            let v = c.get();
            c.set(v + 1);
            v
        });
        let word = mix(seed ^ mix(c)).to_le_bytes();
        let n = (len - i).min(8);
        out[i..i + n].copy_from_slice(&word[..n]);
        i += n;
    }
    len as libc::ssize_t
}
