//! Simulated file-system clock (used by WcSim through hook H3). When no
//! simulated clock is installed on the calling thread, mtimes are not
//! translated.

use std::sync::Mutex;
use std::collections::HashMap;
use std::fs::Metadata;
use std::os::unix::fs::MetadataExt as _;

#[derive(Default)]
pub struct SimClock {
    /// Current tick (milliseconds since "epoch" as seen by jj).
    pub now: i64,
    /// (dev, ino) -> (real mtime ns, real ctime ns, size, tick)
    pub stamps: HashMap<(u64, u64), (i128, i128, u64, i64)>,
}

/// Process-global: jj's snapshot stats files on rayon worker threads.
pub static GLOBAL_CLOCK: Mutex<Option<SimClock>> = Mutex::new(None);

fn real_key(m: &Metadata) -> (i128, i128, u64) {
    (
        i128::from(m.mtime()) * 1_000_000_000 + i128::from(m.mtime_nsec()),
        i128::from(m.ctime()) * 1_000_000_000 + i128::from(m.ctime_nsec()),
        m.size(),
    )
}

impl SimClock {
    /// Stamps the inode with the current tick if its real (mtime, ctime,
    /// size) changed since it was last stamped. Returns the tick.
    pub fn stamp(&mut self, m: &Metadata) -> i64 {
        let key = (m.dev(), m.ino());
        let (mt, ct, sz) = real_key(m);
        match self.stamps.get(&key) {
            Some((omt, oct, osz, tick)) if *omt == mt && *oct == ct && *osz == sz => *tick,
            _ => {
                self.stamps.insert(key, (mt, ct, sz, self.now));
                self.now
            }
        }
    }

    /// Forces a new stamp (the harness edited the inode itself).
    pub fn restamp(&mut self, m: &Metadata) {
        let key = (m.dev(), m.ino());
        let (mt, ct, sz) = real_key(m);
        self.stamps.insert(key, (mt, ct, sz, self.now));
    }

    /// Forces a stamp with an explicit tick (a future-dated file, or an edit
    /// that preserves the previous modification time as `touch -r`, `rsync -t`
    /// or `tar` do).
    pub fn restamp_at(&mut self, m: &Metadata, tick: i64) {
        let key = (m.dev(), m.ino());
        let (mt, ct, sz) = real_key(m);
        self.stamps.insert(key, (mt, ct, sz, tick));
    }
}

pub fn translate_mtime(metadata: &Metadata) -> Option<i64> {
    let mut c = GLOBAL_CLOCK.lock().unwrap();
    let clock = c.as_mut()?;
    Some(clock.stamp(metadata))
}
