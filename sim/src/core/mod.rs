pub mod chooser;
pub mod clock;
pub mod runner;
pub mod sched;
