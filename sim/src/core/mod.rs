pub mod chooser;
pub mod clock;
pub mod rand_seam;
pub mod runner;
pub mod sched;
