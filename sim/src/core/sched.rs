//! Baton scheduler: every simulated jj process is an OS thread that only runs
//! while it holds the baton. Threads hand the baton over at the hook points
//! inside jj's file-system primitives (`jj_lib::verif::point`) and at lock
//! requests; the chooser decides who runs next, who crashes and which
//! primitive fails.

use std::cell::RefCell;
use std::collections::BTreeMap;
use std::io;
use std::path::Path;
use std::path::PathBuf;
use std::sync::Arc;
use std::sync::Condvar;
use std::sync::Mutex;
use std::sync::Once;
use std::thread::JoinHandle;

use super::chooser::Chooser;

#[derive(Clone, Copy, PartialEq, Eq, Debug)]
enum Status {
    NotStarted,
    Runnable,
    WaitLock,
    Dead,
    Finished,
}

#[derive(Clone, Debug)]
pub struct Event {
    pub seq: u64,
    pub pid: usize,
    pub cmd: usize,
    pub kind: &'static str,
    pub detail: String,
}

impl Event {
    pub fn render(&self) -> String {
        format!(
            "{:04} p{}.{} {} {}",
            self.seq, self.pid, self.cmd, self.kind, self.detail
        )
    }
}

/// Per-run scheduling/fault configuration (drawn by the engine from the
/// chooser: swarm style).
#[derive(Clone, Debug)]
pub struct SimCfg {
    /// Probability (1/den) of switching to another process at a point;
    /// 0 = never switch voluntarily.
    pub switch_den: usize,
    /// Probability (num/1000) of a crash at a point.
    pub crash_per_mille: usize,
    /// Maximum number of crashes in this run.
    pub max_crashes: usize,
    /// Probability (num/1000) of an injected I/O error at a fallible point.
    pub ioerr_per_mille: usize,
    pub max_ioerrs: usize,
    /// Locks are granted to everyone (e.g. a file system where flock does
    /// nothing).
    pub locks_ineffective: bool,
    /// Hard bound on events per run.
    pub max_events: u64,
    /// Kinds at which an I/O error may be injected.
    pub fallible_kinds: &'static [&'static str],
}

impl Default for SimCfg {
    fn default() -> Self {
        Self {
            switch_den: 3,
            crash_per_mille: 0,
            max_crashes: 0,
            ioerr_per_mille: 0,
            max_ioerrs: 0,
            locks_ineffective: false,
            max_events: 5000,
            fallible_kinds: &[],
        }
    }
}

struct Proc {
    status: Status,
    cmd: usize,
    slot: usize,
    wait_lock: Option<PathBuf>,
}

pub struct Inner {
    pub chooser: Chooser,
    procs: Vec<Proc>,
    current: Option<usize>,
    locks: BTreeMap<PathBuf, usize>,
    pub log: Vec<Event>,
    pub cfg: SimCfg,
    seq: u64,
    shutdown: bool,
    pub crashes: u64,
    pub ioerrs: u64,
    pub counters: BTreeMap<&'static str, u64>,
    pub aborted: Option<String>,
    /// Set when the run must stop as soon as possible (violation found or
    /// event budget exhausted).
    pub stop: bool,
    pending_respawn: Vec<usize>,
    slot_cmds: Vec<usize>,
    respawn: bool,
}

impl Inner {
    pub fn bump(&mut self, name: &'static str) {
        *self.counters.entry(name).or_insert(0) += 1;
    }
}

/// What a simulated command should do when the scheduler tells it so.
pub struct Killed;

pub type Observer = dyn Fn(&Sim, &Event) + Send + Sync;
pub type Body = dyn Fn(&Arc<Sim>, usize, usize) + Send + Sync;

pub struct Sim {
    pub inner: Mutex<Inner>,
    cv: Condvar,
    pub root: PathBuf,
    observer: Mutex<Option<Arc<Observer>>>,
    threads: Mutex<Vec<JoinHandle<()>>>,
}

thread_local! {
    static CURRENT: RefCell<Option<(Arc<Sim>, usize)>> = const { RefCell::new(None) };
    static IN_HARNESS: RefCell<u32> = const { RefCell::new(0) };
}

/// Runs `f` with all hooks disabled for this thread (used by observers that
/// call into jj themselves).
pub fn without_hooks<T>(f: impl FnOnce() -> T) -> T {
    IN_HARNESS.with(|c| *c.borrow_mut() += 1);
    struct Guard;
    impl Drop for Guard {
        fn drop(&mut self) {
            IN_HARNESS.with(|c| *c.borrow_mut() -= 1);
        }
    }
    let _g = Guard;
    f()
}

fn current() -> Option<(Arc<Sim>, usize)> {
    if IN_HARNESS.with(|c| *c.borrow()) > 0 {
        return None;
    }
    CURRENT.with(|c| c.borrow().clone())
}

/// Scheduler pid of the calling simulated process, if any.
pub fn current_pid() -> Option<usize> {
    CURRENT.with(|c| c.borrow().as_ref().map(|(_, pid)| *pid))
}

struct GlobalHooks;

impl jj_lib::verif::VerifHooks for GlobalHooks {
    fn point(&self, kind: &'static str, path: &Path) -> io::Result<()> {
        match current() {
            Some((sim, pid)) => sim.point(pid, kind, path),
            None => Ok(()),
        }
    }

    fn lock(&self, path: &Path, blocking: bool) -> Option<bool> {
        let (sim, pid) = current()?;
        Some(sim.lock(pid, path, blocking))
    }

    fn unlock(&self, path: &Path) {
        if let Some((sim, pid)) = current() {
            sim.unlock(pid, path);
        }
    }

    fn mtime(&self, metadata: &std::fs::Metadata) -> Option<i64> {
        super::clock::translate_mtime(metadata)
    }
}

pub fn install_global_hooks() {
    static ONCE: Once = Once::new();
    ONCE.call_once(|| {
        jj_lib::verif::install(Some(Arc::new(GlobalHooks)));
        // Killed processes are unwound with a private payload; keep them quiet.
        let default_hook = std::panic::take_hook();
        std::panic::set_hook(Box::new(move |info| {
            if info.payload().is::<Killed>() {
                return;
            }
            if std::env::var_os("JJSIM_QUIET_PANICS").is_some() {
                return;
            }
            default_hook(info);
        }));
    });
}

impl Sim {
    pub fn new(root: PathBuf, chooser: Chooser, cfg: SimCfg) -> Arc<Self> {
        install_global_hooks();
        Arc::new(Self {
            inner: Mutex::new(Inner {
                chooser,
                procs: Vec::new(),
                current: None,
                locks: BTreeMap::new(),
                log: Vec::new(),
                cfg,
                seq: 0,
                shutdown: false,
                crashes: 0,
                ioerrs: 0,
                counters: BTreeMap::new(),
                aborted: None,
                stop: false,
                pending_respawn: Vec::new(),
                slot_cmds: Vec::new(),
                respawn: false,
            }),
            cv: Condvar::new(),
            root,
            observer: Mutex::new(None),
            threads: Mutex::new(Vec::new()),
        })
    }

    pub fn set_observer(&self, obs: Arc<Observer>) {
        *self.observer.lock().unwrap() = Some(obs);
    }

    pub fn rel(&self, path: &Path) -> String {
        path.strip_prefix(&self.root)
            .unwrap_or(path)
            .to_string_lossy()
            .into_owned()
    }

    /// Draws from the chooser (callable from any simulated process while it
    /// holds the baton, or from the driver thread while nobody runs).
    pub fn choose(&self, n: usize) -> usize {
        self.inner.lock().unwrap().chooser.choose(n)
    }

    pub fn with_chooser<T>(&self, f: impl FnOnce(&mut Chooser) -> T) -> T {
        f(&mut self.inner.lock().unwrap().chooser)
    }

    pub fn bump(&self, name: &'static str) {
        self.inner.lock().unwrap().bump(name);
    }

    pub fn request_stop(&self) {
        self.inner.lock().unwrap().stop = true;
    }

    /// Appends a harness-level event (generated operation, oracle
    /// observation) to the log. Not a scheduling point.
    pub fn note(&self, kind: &'static str, detail: String) {
        let pid_cmd = current().map(|(_, pid)| pid);
        let mut inner = self.inner.lock().unwrap();
        let (pid, cmd) = match pid_cmd {
            Some(pid) => (pid, inner.procs[pid].cmd),
            None => (99, 0),
        };
        inner.seq += 1;
        let seq = inner.seq;
        inner.log.push(Event {
            seq,
            pid,
            cmd,
            kind,
            detail,
        });
    }

    fn push_event(&self, inner: &mut Inner, pid: usize, kind: &'static str, detail: String) -> Event {
        inner.seq += 1;
        let ev = Event {
            seq: inner.seq,
            pid,
            cmd: inner.procs[pid].cmd,
            kind,
            detail,
        };
        inner.log.push(ev.clone());
        ev
    }

    fn runnable(inner: &Inner) -> Vec<usize> {
        inner
            .procs
            .iter()
            .enumerate()
            .filter(|(_, p)| match p.status {
                Status::Runnable | Status::NotStarted => true,
                Status::WaitLock => {
                    let path = p.wait_lock.as_ref().unwrap();
                    !inner.locks.contains_key(path)
                }
                Status::Dead | Status::Finished => false,
            })
            .map(|(i, _)| i)
            .collect()
    }

    /// Picks who runs next. `me_can_continue` tells whether the caller is
    /// still runnable.
    fn pick_next(inner: &mut Inner, me: Option<usize>) -> Option<usize> {
        let runnable = Self::runnable(inner);
        if runnable.is_empty() {
            return None;
        }
        if let Some(me) = me
            && runnable.contains(&me)
        {
            let others: Vec<usize> = runnable.iter().copied().filter(|&p| p != me).collect();
            if others.is_empty() || inner.cfg.switch_den == 0 {
                return Some(me);
            }
            if inner.chooser.chance(1, inner.cfg.switch_den) {
                let i = inner.chooser.choose(others.len());
                return Some(others[i]);
            }
            return Some(me);
        }
        let i = inner.chooser.choose(runnable.len());
        Some(runnable[i])
    }

    fn die_now(&self) -> ! {
        std::panic::resume_unwind(Box::new(Killed));
    }

    /// Hands the baton to `next` and blocks until `me` is scheduled again.
    fn hand_over_and_wait<'a>(
        &'a self,
        mut inner: std::sync::MutexGuard<'a, Inner>,
        me: usize,
        next: Option<usize>,
    ) -> std::sync::MutexGuard<'a, Inner> {
        inner.current = next;
        if next != Some(me) {
            self.cv.notify_all();
        }
        while inner.current != Some(me) {
            if inner.shutdown {
                drop(inner);
                self.die_now();
            }
            inner = self.cv.wait(inner).unwrap();
        }
        if inner.shutdown {
            drop(inner);
            self.die_now();
        }
        inner
    }

    fn park_dead<'a>(&'a self, mut inner: std::sync::MutexGuard<'a, Inner>) -> ! {
        while !inner.shutdown {
            inner = self.cv.wait(inner).unwrap();
        }
        drop(inner);
        self.die_now();
    }

    /// The hook entry: a file-system primitive is about to execute.
    pub fn point(self: &Arc<Self>, pid: usize, kind: &'static str, path: &Path) -> io::Result<()> {
        // Reads of immutable content-addressed objects happen in HashMap
        // iteration order inside jj (std RandomState, no seam). Their order
        // cannot influence the file-system state, so only the directory is
        // logged: the log stays a function of the seed.
        let detail = if matches!(
            kind,
            "opstore:read_operation" | "opstore:read_view" | "index:read_op_link" | "table:load_segment"
        ) {
            format!("{}/*", self.rel(path.parent().unwrap_or(path)))
        } else {
            self.rel(path)
        };
        let mut inner = self.inner.lock().unwrap();
        if inner.shutdown || inner.procs[pid].status == Status::Dead {
            // Called from a Drop handler while a killed thread unwinds.
            return Ok(());
        }
        let ev = self.push_event(&mut inner, pid, kind, detail);
        if inner.seq >= inner.cfg.max_events {
            inner.stop = true;
            inner.aborted.get_or_insert_with(|| "event budget exhausted".to_string());
        }
        drop(inner);
        // Invariants are evaluated by the thread that holds the baton.
        let observer = self.observer.lock().unwrap().clone();
        if let Some(obs) = observer {
            without_hooks(|| obs(self, &ev));
        }
        let mut inner = self.inner.lock().unwrap();
        if inner.stop {
            // Wind the run down: this process stops here for good.
            inner.procs[pid].status = Status::Dead;
            self.release_locks(&mut inner, pid);
            let next = Self::pick_next(&mut inner, None);
            inner.current = next;
            self.cv.notify_all();
            self.park_dead(inner);
        }
        // Crash?
        if inner.crashes < inner.cfg.max_crashes as u64
            && inner.cfg.crash_per_mille > 0
            && {
                let pm = inner.cfg.crash_per_mille;
                inner.chooser.chance(pm, 1000)
            }
        {
            inner.crashes += 1;
            self.push_event(&mut inner, pid, "FAULT:crash", format!("before {kind}"));
            inner.procs[pid].status = Status::Dead;
            self.release_locks(&mut inner, pid);
            let cmd = inner.procs[pid].cmd;
            let slot = inner.procs[pid].slot;
            if inner.respawn && cmd + 1 < inner.slot_cmds[slot] {
                // The next command of this slot runs as a fresh process image.
                let new_pid = inner.procs.len();
                inner.procs.push(Proc {
                    status: Status::NotStarted,
                    cmd: cmd + 1,
                    slot,
                    wait_lock: None,
                });
                inner.pending_respawn.push(new_pid);
            }
            let next = Self::pick_next(&mut inner, None);
            inner.current = next;
            self.cv.notify_all();
            self.park_dead(inner);
        }
        // I/O error?
        let mut result = Ok(());
        if inner.ioerrs < inner.cfg.max_ioerrs as u64
            && inner.cfg.ioerr_per_mille > 0
            && inner.cfg.fallible_kinds.contains(&kind)
            && {
                let pm = inner.cfg.ioerr_per_mille;
                inner.chooser.chance(pm, 1000)
            }
        {
            inner.ioerrs += 1;
            self.push_event(&mut inner, pid, "FAULT:ioerr", format!("at {kind}"));
            result = Err(io::Error::new(
                io::ErrorKind::StorageFull,
                "injected: no space left on device",
            ));
        }
        let next = Self::pick_next(&mut inner, Some(pid));
        let inner = self.hand_over_and_wait(inner, pid, next);
        drop(inner);
        result
    }

    fn release_locks(&self, inner: &mut Inner, pid: usize) {
        inner.locks.retain(|_, holder| *holder != pid);
    }

    pub fn lock(self: &Arc<Self>, pid: usize, path: &Path, blocking: bool) -> bool {
        // The request itself is a scheduling point.
        let _ = self.point(pid, "lock:request", path);
        let mut inner = self.inner.lock().unwrap();
        if inner.shutdown || inner.procs[pid].status == Status::Dead {
            return true;
        }
        if inner.cfg.locks_ineffective {
            inner.bump("lock_granted_ineffective");
            return true;
        }
        loop {
            match inner.locks.get(path) {
                None => {
                    inner.locks.insert(path.to_path_buf(), pid);
                    let detail = self.rel(path);
                    self.push_event(&mut inner, pid, "lock:granted", detail);
                    return true;
                }
                Some(holder) if *holder == pid => {
                    // Re-entrant request would deadlock with a real flock.
                    inner.aborted = Some(format!("p{pid} requested a lock it holds"));
                    inner.stop = true;
                    return true;
                }
                Some(_) => {
                    inner.bump("lock_contended");
                    if !blocking {
                        return false;
                    }
                    inner.procs[pid].status = Status::WaitLock;
                    inner.procs[pid].wait_lock = Some(path.to_path_buf());
                    let next = Self::pick_next(&mut inner, None);
                    if next.is_none() {
                        inner.aborted = Some("deadlock: nobody runnable".to_string());
                        inner.stop = true;
                        inner.procs[pid].status = Status::Runnable;
                        return true;
                    }
                    inner = self.hand_over_and_wait(inner, pid, next);
                    inner.procs[pid].status = Status::Runnable;
                    inner.procs[pid].wait_lock = None;
                }
            }
        }
    }

    pub fn unlock(self: &Arc<Self>, pid: usize, path: &Path) {
        let mut inner = self.inner.lock().unwrap();
        if inner.shutdown || inner.procs[pid].status == Status::Dead {
            return;
        }
        if inner.locks.get(path) == Some(&pid) {
            inner.locks.remove(path);
            let detail = self.rel(path);
            self.push_event(&mut inner, pid, "lock:released", detail);
        }
    }

    fn spawn_proc(self: &Arc<Self>, pid: usize, slot: usize, start_cmd: usize, n_cmds: usize, body: Arc<Body>) {
        let sim = self.clone();
        let handle = std::thread::Builder::new()
            .name(format!("sim-p{pid}"))
            .stack_size(8 << 20)
            .spawn(move || {
                CURRENT.with(|c| *c.borrow_mut() = Some((sim.clone(), pid)));
                let result = std::panic::catch_unwind(std::panic::AssertUnwindSafe(|| {
                    // Wait for the first turn.
                    {
                        let mut inner = sim.inner.lock().unwrap();
                        while inner.current != Some(pid) {
                            if inner.shutdown {
                                drop(inner);
                                sim.die_now();
                            }
                            inner = sim.cv.wait(inner).unwrap();
                        }
                        inner.procs[pid].status = Status::Runnable;
                    }
                    for cmd in start_cmd..n_cmds {
                        {
                            let mut inner = sim.inner.lock().unwrap();
                            inner.procs[pid].cmd = cmd;
                            if inner.stop {
                                break;
                            }
                        }
                        body(&sim, slot, cmd);
                        // A command boundary is a scheduling point as well.
                        let _ = sim.point(pid, "cmd:end", Path::new(""));
                    }
                }));
                CURRENT.with(|c| *c.borrow_mut() = None);
                let mut inner = sim.inner.lock().unwrap();
                match result {
                    Ok(()) => {}
                    Err(payload) => {
                        if !payload.is::<Killed>() {
                            let msg = payload
                                .downcast_ref::<String>()
                                .cloned()
                                .or_else(|| payload.downcast_ref::<&str>().map(|s| s.to_string()))
                                .unwrap_or_else(|| "panic".to_string());
                            let cmd = inner.procs[pid].cmd;
                            inner.seq += 1;
                            let seq = inner.seq;
                            // A panic caused by an injected I/O error (jj's
                            // debug-assertion-only re-merge unwraps) is just
                            // a failed command.
                            let injected = msg.contains("injected:");
                            inner.log.push(Event {
                                seq,
                                pid,
                                cmd,
                                kind: if injected { "note:panic_on_injected_ioerr" } else { "PANIC" },
                                detail: msg.clone(),
                            });
                            if injected {
                                inner.bump("panic_on_injected_ioerr");
                            } else {
                                inner.aborted.get_or_insert(format!("panic in p{pid}: {msg}"));
                                inner.stop = true;
                            }
                        } else {
                            // Killed: status already Dead (or shutdown).
                            return;
                        }
                    }
                }
                if inner.shutdown {
                    return;
                }
                inner.procs[pid].status = Status::Finished;
                sim.release_locks(&mut inner, pid);
                let next = Sim::pick_next(&mut inner, None);
                inner.current = next;
                sim.cv.notify_all();
            })
            .expect("spawn");
        self.threads.lock().unwrap().push(handle);
    }

    /// Runs `n_procs` simulated processes, each executing `cmds[pid]`
    /// commands through `body(sim, pid, cmd_index)`. Returns when every
    /// process has finished or is dead. Dead threads stay parked until
    /// `shutdown`.
    pub fn run(self: &Arc<Self>, cmds: &[usize], body: Arc<Body>, respawn_after_crash: bool) {
        {
            let mut inner = self.inner.lock().unwrap();
            inner.slot_cmds = cmds.to_vec();
            inner.respawn = respawn_after_crash;
            for slot in 0..cmds.len() {
                inner.procs.push(Proc {
                    status: Status::NotStarted,
                    cmd: 0,
                    slot,
                    wait_lock: None,
                });
            }
        }
        for (pid, n) in cmds.iter().enumerate() {
            self.spawn_proc(pid, pid, 0, *n, body.clone());
        }
        let mut inner = self.inner.lock().unwrap();
        let first = Self::pick_next(&mut inner, None);
        inner.current = first;
        self.cv.notify_all();
        loop {
            // Crashed processes were replaced (in the process table, by the
            // crashing thread itself, so deterministically) by a fresh process
            // image for the slot's next command; only the OS thread is created
            // here.
            let list = std::mem::take(&mut inner.pending_respawn);
            if !list.is_empty() {
                let specs: Vec<(usize, usize, usize, usize)> = list
                    .iter()
                    .map(|&pid| {
                        let p = &inner.procs[pid];
                        (pid, p.slot, p.cmd, inner.slot_cmds[p.slot])
                    })
                    .collect();
                drop(inner);
                for (pid, slot, cmd, n) in specs {
                    self.spawn_proc(pid, slot, cmd, n, body.clone());
                }
                inner = self.inner.lock().unwrap();
                continue;
            }
            let all_done = inner
                .procs
                .iter()
                .all(|p| matches!(p.status, Status::Dead | Status::Finished));
            if all_done {
                break;
            }
            if inner.current.is_none() {
                let next = Self::pick_next(&mut inner, None);
                if next.is_none() {
                    inner
                        .aborted
                        .get_or_insert("deadlock: live processes but nobody runnable".to_string());
                    inner.stop = true;
                    break;
                }
                inner.current = next;
                self.cv.notify_all();
            }
            inner = self
                .cv
                .wait_timeout(inner, std::time::Duration::from_millis(100))
                .unwrap()
                .0;
        }
        inner.current = None;
    }

    /// Unwinds every parked thread and joins them. Call after all checks.
    pub fn shutdown(&self) {
        {
            let mut inner = self.inner.lock().unwrap();
            inner.shutdown = true;
            self.cv.notify_all();
        }
        let threads = std::mem::take(&mut *self.threads.lock().unwrap());
        for t in threads {
            let _ = t.join();
        }
    }

    pub fn log_lines(&self) -> Vec<String> {
        self.inner.lock().unwrap().log.iter().map(Event::render).collect()
    }

    /// Hash of the (pid, kind) sequence: the interleaving signature.
    pub fn signature(&self) -> u64 {
        let inner = self.inner.lock().unwrap();
        let mut h: u64 = 0xcbf2_9ce4_8422_2325;
        for ev in &inner.log {
            if ev.kind.starts_with("note:") {
                continue;
            }
            for b in [ev.pid as u8].iter().chain(ev.kind.as_bytes()) {
                h ^= u64::from(*b);
                h = h.wrapping_mul(0x100_0000_01b3);
            }
        }
        h
    }
}
