//! TableSim — stacked tables under concurrent writers (C21).
//!
//! Real code: `jj_lib::stacked_table::{TableStore, MutableTable,
//! ReadonlyTable}` on a tmpfs directory. Simulated: process interleaving at
//! the store's primitives (list heads / load segment / persist segment / add
//! head / remove head / lock), process crashes, ineffective locks.

use std::collections::BTreeMap;
use std::path::Path;
use std::sync::Arc;
use std::sync::Mutex;

use jj_lib::stacked_table::TableSegment as _;
use jj_lib::stacked_table::TableStore;

use crate::core::chooser::Chooser;
use crate::core::runner::Budget;
use crate::core::runner::Engine;
use crate::core::runner::RunOutcome;
use crate::core::runner::Tier;
use crate::core::sched;
use crate::core::sched::Sim;
use crate::core::sched::SimCfg;

pub struct TableSim;

#[derive(Clone, Debug)]
struct SaveRec {
    id: usize,
    pid: usize,
    cmd: usize,
    /// Sequence number when the writer asked for the head it builds on.
    start_seq: u64,
    /// Sequence number when `save_table` returned.
    done_seq: Option<u64>,
    entries: Vec<(Vec<u8>, Vec<u8>)>,
}

#[derive(Default)]
struct Model {
    saves: Vec<SaveRec>,
    violations: Vec<(String, String, String, u64)>, // invariant, key, message, at_event
    first_save_done: bool,
    /// Event numbers at which two or more head files existed.
    last_multi_head_seq: u64,
    probes: BTreeMap<&'static str, u64>,
}

fn hex(b: &[u8]) -> String {
    b.iter().map(|x| format!("{x:02x}")).collect()
}

fn cur_seq(sim: &Sim) -> u64 {
    sim.inner.lock().unwrap().log.last().map_or(0, |e| e.seq)
}

/// Stamp for "starts now": strictly greater than everything that happened.
fn next_seq(sim: &Sim) -> u64 {
    cur_seq(sim) + 1
}

/// Values of `key` that a reader starting at `read_start` may legitimately
/// see, and whether one of them must be present.
fn acceptable(model: &Model, key: &[u8], read_start: u64, added: &dyn Fn(&SaveRec) -> bool) -> (Vec<Vec<u8>>, bool) {
    // Writes of this key.
    let writes: Vec<(&SaveRec, &Vec<u8>)> = model
        .saves
        .iter()
        .filter_map(|s| s.entries.iter().find(|(k, _)| k == key).map(|(_, v)| (s, v)))
        .collect();
    let mut values = vec![];
    let mut required = false;
    for (w, v) in &writes {
        // Superseded if some other write of the key started after this one
        // completed and itself completed before the read started.
        let superseded = writes.iter().any(|(w2, _)| {
            w2.id != w.id
                && matches!((w.done_seq, w2.done_seq), (Some(d), Some(d2)) if d < w2.start_seq && d2 < read_start)
        });
        if superseded {
            continue;
        }
        values.push((*v).clone());
        let completed_before_read = w.done_seq.is_some_and(|d| d < read_start);
        if completed_before_read || added(w) {
            required = true;
        }
    }
    // If every candidate is superseded the superseding ones are in `values`
    // already (they are themselves not superseded or chained further).
    (values, required)
}

struct Shared {
    model: Mutex<Model>,
    stores: Mutex<Vec<Option<TableStore>>>,
    key_size: usize,
    n_keys: usize,
    /// false: every value is a function of its key (what the Git backend
    /// stores); true: saves overwrite keys with fresh unique values.
    mutable_values: bool,
    dir: std::path::PathBuf,
}

fn value_for(shared_mutable: bool, key: &[u8], unique: String) -> Vec<u8> {
    if shared_mutable {
        unique.into_bytes()
    } else {
        format!("v{}", hex(key)).into_bytes()
    }
}

/// Names the class of an emptied heads directory. `aba_head_name`: the unlink
/// that emptied it was issued by process P for head name X, and between P's
/// last listing of the heads and the execution of that unlink another
/// process added a head named X again (content-addressed names recur when a
/// merge or squash reproduces an older table byte for byte).
fn classify_heads_empty(sim: &Sim) -> &'static str {
    let inner = sim.inner.lock().unwrap();
    let log = &inner.log;
    for (i, rem) in log.iter().enumerate() {
        if rem.kind != "table:remove_head" {
            continue;
        }
        // executed iff the same process logged something afterwards that is
        // not its crash; it executed just before that next event
        let Some(next) = log[i + 1..].iter().find(|n| n.pid == rem.pid) else {
            continue;
        };
        if next.kind == "FAULT:crash" {
            continue;
        }
        let exec_seq = next.seq;
        let listing_seq = log[..i]
            .iter()
            .rev()
            .find(|e| e.pid == rem.pid && e.kind == "table:list_heads")
            .map_or(0, |e| e.seq);
        let aba = log.iter().any(|e| {
            e.kind == "table:add_head"
                && e.pid != rem.pid
                && e.detail == rem.detail
                && e.seq > listing_seq
                && e.seq < exec_seq
        });
        if aba {
            return "aba_head_name";
        }
    }
    "any"
}

fn make_key(key_size: usize, i: usize) -> Vec<u8> {
    let mut k = vec![0u8; key_size];
    k[0] = i as u8;
    if key_size > 1 {
        k[key_size - 1] = (i * 37) as u8;
    }
    k
}

fn check_read(
    shared: &Shared,
    sim: &Sim,
    table: &Arc<jj_lib::stacked_table::ReadonlyTable>,
    read_start: u64,
    what: &str,
    quiescent: bool,
) {
    let added_after_crash = |s: &SaveRec| -> bool {
        if !quiescent {
            return false;
        }
        save_reached_add_head(sim, s)
    };
    let mut model = shared.model.lock().unwrap();
    for i in 0..shared.n_keys {
        let key = make_key(shared.key_size, i);
        let (values, required) = acceptable(&model, &key, read_start, &added_after_crash);
        let got = table.get_value(&key).map(<[u8]>::to_vec);
        match got {
            None => {
                if required {
                    let at = cur_seq(sim);
                    let class = match classify_heads_empty(sim) {
                        "any" => what,
                        c => c,
                    };
                    model.violations.push((
                        "entry_lost".to_string(),
                        format!("tablesim:entry_lost:{class}"),
                        format!(
                            "{what}: key {} absent from head {} although a save recording it completed before the read started (acceptable values: {:?})",
                            hex(&key),
                            &table.name()[..12],
                            values.iter().map(|v| String::from_utf8_lossy(v).into_owned()).collect::<Vec<_>>()
                        ),
                        at,
                    ));
                }
            }
            Some(v) => {
                if !values.contains(&v) {
                    let at = cur_seq(sim);
                    // Distinguish garbage from a resurrected older value.
                    let known_value = model
                        .saves
                        .iter()
                        .any(|s| s.entries.iter().any(|(k, val)| *k == key && *val == v));
                    let inv = if known_value { "stale_value" } else { "wrong_value" };
                    let class = if known_value {
                        classify_stale(&model, &key, &v, read_start)
                    } else {
                        what
                    };
                    model.violations.push((
                        inv.to_string(),
                        format!("tablesim:{inv}:{class}"),
                        format!(
                            "{what}: key {} = {:?} in head {}, acceptable: {:?}",
                            hex(&key),
                            String::from_utf8_lossy(&v),
                            &table.name()[..12],
                            values.iter().map(|v| String::from_utf8_lossy(v).into_owned()).collect::<Vec<_>>()
                        ),
                        at,
                    ));
                }
            }
        }
    }
}

/// Names the history class of a stale value, for known-findings matching.
///
/// `divergent_merge_resurrects_base_value`: the value `v` was written by W0,
/// overwritten by a later sequential save W1, and some other save W2 that was
/// built on a head still holding `v` (W0 done before W2 started) overlapped
/// W1 in time, i.e. divergent heads existed whose merge can re-add the base
/// value. Everything else is `sequential`.
fn classify_stale(model: &Model, key: &[u8], v: &[u8], read_start: u64) -> &'static str {
    let writes: Vec<&SaveRec> = model
        .saves
        .iter()
        .filter(|s| s.entries.iter().any(|(k, _)| k == key))
        .collect();
    let Some(w0) = writes
        .iter()
        .find(|s| s.entries.iter().any(|(k, val)| k == key && val == v))
    else {
        return "sequential";
    };
    let Some(d0) = w0.done_seq else {
        return "sequential";
    };
    for w1 in &writes {
        let Some(d1) = w1.done_seq else { continue };
        if w1.id == w0.id || !(d0 < w1.start_seq && d1 < read_start) {
            continue;
        }
        // divergent heads existed at or after the overwrite started, so a
        // merge may have re-added the base value
        let divergent = model.last_multi_head_seq >= w1.start_seq;
        if divergent {
            return "divergent_merge_resurrects_base_value";
        }
    }
    "sequential"
}

/// True when the log shows that the save's `add_head` primitive executed
/// (its point was passed without the process being killed right there).
fn save_reached_add_head(sim: &Sim, s: &SaveRec) -> bool {
    let inner = sim.inner.lock().unwrap();
    let evs: Vec<_> = inner
        .log
        .iter()
        .filter(|e| e.pid == s.pid && e.cmd == s.cmd && e.seq > s.start_seq)
        .collect();
    // The save's own add_head is the last table:add_head of that command.
    let Some(pos) = evs.iter().rposition(|e| e.kind == "table:add_head") else {
        return false;
    };
    // ... provided the merged-head save inside get_head is not mistaken for
    // it: the own save comes after the note "save:begin".
    let begin = evs.iter().position(|e| e.kind == "note:save_begin");
    if begin.is_none_or(|b| pos < b) {
        return false;
    }
    match evs.get(pos + 1) {
        Some(next) => next.kind != "FAULT:crash",
        None => false,
    }
}

fn list_heads(dir: &Path) -> Vec<String> {
    let mut v: Vec<String> = std::fs::read_dir(dir.join("heads"))
        .map(|rd| {
            rd.filter_map(|e| e.ok())
                .map(|e| e.file_name().to_string_lossy().into_owned())
                .collect()
        })
        .unwrap_or_default();
    v.sort();
    v
}

impl TableSim {
    fn body(shared: &Arc<Shared>, sim: &Arc<Sim>, slot: usize, cmd: usize) {
        let pid = sched::current_pid().unwrap();
        // Reuse the instance of the slot (its segment cache) or reload.
        let reuse = sim.with_chooser(|c| c.chance(1, 2));
        let taken = shared.stores.lock().unwrap()[slot].take();
        let store = match (reuse, taken) {
            (true, Some(s)) => s,
            _ => {
                sim.bump("reload");
                TableStore::load(shared.dir.clone(), shared.key_size)
            }
        };
        // 0 = lock-less writer, 1 = locked writer, 2 = reader
        let kind = sim.with_chooser(|c| c.weighted(&[4, 3, 3]));
        match kind {
            0 | 1 => {
                let n_entries = sim.with_chooser(|c| c.weighted(&[1, 4, 3, 2, 1]));
                let id = {
                    let mut model = shared.model.lock().unwrap();
                    let id = model.saves.len();
                    let entries = (0..n_entries)
                        .map(|j| {
                            let k = sim.with_chooser(|c| c.choose(shared.n_keys));
                            let key = make_key(shared.key_size, k);
                            let v = value_for(shared.mutable_values, &key, format!("s{id}e{j}"));
                            (key, v)
                        })
                        .collect::<Vec<_>>();
                    // A save may name the same key twice; the last one wins.
                    let mut dedup: Vec<(Vec<u8>, Vec<u8>)> = vec![];
                    for (k, v) in entries {
                        dedup.retain(|(k2, _)| *k2 != k);
                        dedup.push((k, v));
                    }
                    model.saves.push(SaveRec {
                        id,
                        pid,
                        cmd,
                        start_seq: next_seq(sim),
                        done_seq: None,
                        entries: dedup,
                    });
                    id
                };
                let entries_txt = shared.model.lock().unwrap().saves[id]
                    .entries
                    .iter()
                    .map(|(k, v)| format!("{}={}", hex(k), String::from_utf8_lossy(v)))
                    .collect::<Vec<_>>()
                    .join(",");
                sim.note(
                    "note:save_start",
                    format!(
                        "save#{id} {} [{entries_txt}]",
                        if kind == 0 { "lockless" } else { "locked" }
                    ),
                );
                let read_start = next_seq(sim);
                let (head, lock) = if kind == 0 {
                    match store.get_head() {
                        Ok(h) => (h, None),
                        Err(e) => {
                            Self::api_error(shared, sim, "get_head", &e);
                            return;
                        }
                    }
                } else {
                    match store.get_head_locked() {
                        Ok((h, l)) => (h, Some(l)),
                        Err(e) => {
                            Self::api_error(shared, sim, "get_head_locked", &e);
                            return;
                        }
                    }
                };
                check_read(shared, sim, &head, read_start, "writer_head", false);
                let mut mt = head.start_mutation();
                let entries = shared.model.lock().unwrap().saves[id].entries.clone();
                for (k, v) in &entries {
                    mt.add_entry(k.clone(), v.clone());
                }
                sim.note("note:save_begin", format!("save#{id} on {}", &head.name()[..12]));
                match store.save_table(mt) {
                    Ok(t) => {
                        let seq = cur_seq(sim);
                        {
                            let mut model = shared.model.lock().unwrap();
                            model.saves[id].done_seq = Some(seq);
                            model.first_save_done = true;
                        }
                        sim.note("note:save_done", format!("save#{id} -> {}", &t.name()[..12]));
                    }
                    Err(e) => {
                        Self::api_error(shared, sim, "save_table", &e);
                    }
                }
                drop(lock);
            }
            _ => {
                let read_start = next_seq(sim);
                sim.note("note:read_start", String::new());
                match store.get_head() {
                    Ok(head) => {
                        check_read(shared, sim, &head, read_start, "reader", false);
                        // Reload from disk with a fresh instance: same head
                        // name must answer identically.
                        let fresh = TableStore::load(shared.dir.clone(), shared.key_size);
                        let read_start2 = next_seq(sim);
                        if let Ok(head2) = fresh.get_head() {
                            check_read(shared, sim, &head2, read_start2, "reader_fresh", false);
                            if head2.name() == head.name() {
                                for i in 0..shared.n_keys {
                                    let key = make_key(shared.key_size, i);
                                    if head.get_value(&key) != head2.get_value(&key) {
                                        let at = cur_seq(sim);
                                        shared.model.lock().unwrap().violations.push((
                                            "reload_changes_lookup".to_string(),
                                            "tablesim:reload_changes_lookup".to_string(),
                                            format!("key {} differs between cached and reloaded head {}", hex(&key), head.name()),
                                            at,
                                        ));
                                    }
                                }
                            }
                        }
                    }
                    Err(e) => Self::api_error(shared, sim, "get_head", &e),
                }
            }
        }
        shared.stores.lock().unwrap()[slot] = Some(store);
    }

    fn api_error(shared: &Shared, sim: &Sim, what: &str, e: &dyn std::error::Error) {
        // Without injected I/O errors the table API must not fail.
        let at = cur_seq(sim);
        let mut msg = format!("{what} failed: {e}");
        let mut src = e.source();
        while let Some(s) = src {
            msg.push_str(&format!(": {s}"));
            src = s.source();
        }
        shared.model.lock().unwrap().violations.push((
            "api_error".to_string(),
            format!("tablesim:api_error:{what}"),
            msg,
            at,
        ));
    }
}

impl Engine for TableSim {
    fn name(&self) -> &'static str {
        "tablesim"
    }

    fn properties(&self) -> Vec<&'static str> {
        vec!["C21"]
    }

    fn budget(&self, _prop: &str, tier: Tier) -> Budget {
        match tier {
            Tier::Quick => Budget { runs: 20_000, max_seconds: 60 },
            Tier::Thorough => Budget { runs: 1_500_000, max_seconds: 900 },
        }
    }

    fn rule(&self, _prop: &str) -> String {
        "one evaluation = one simulated run of 2-4 processes x 1-4 table commands (lock-less save, locked save, read+reload) \
         scheduled at the store's primitives by the seeded chooser; distinct = distinct hash of the (process, primitive) event \
         sequence; non-trivial = at least two processes' primitives interleaved inside one command, or a fault fired"
            .to_string()
    }

    fn components_real(&self) -> Vec<&'static str> {
        vec!["jj_lib::stacked_table (TableStore, MutableTable, ReadonlyTable)", "jj_lib::file_util::persist_content_addressed_temp_file", "tmpfs directory"]
    }

    fn components_stub(&self) -> Vec<&'static str> {
        vec!["flock (scheduler-owned lock table via hook H2)", "process scheduling and crashes (baton scheduler via hook H1)"]
    }

    fn assumptions(&self, _prop: &str) -> Vec<String> {
        vec![
            "directory listing, file create, unlink and rename are atomic steps (a process kill never tears them)".to_string(),
            "a crashed process loses its memory and locks; files it created stay".to_string(),
        ]
    }

    fn fault_kinds(&self) -> Vec<&'static str> {
        vec!["crash", "locks_ineffective", "stale_writer"]
    }

    fn run(&self, prop: &str, mut chooser: Chooser, scratch: &Path) -> RunOutcome {
        let mut out = RunOutcome::default();
        // --- swarm configuration
        let n_procs = chooser.range(2, 4);
        let cmds: Vec<usize> = (0..n_procs).map(|_| chooser.range(1, 4)).collect();
        let switch_den = *chooser.pick(&[3usize, 1, 2, 5, 10]);
        let crash = *chooser.pick(&[0usize, 0, 15, 40]);
        let locks_ineffective = chooser.chance(1, 3);
        let key_size = *chooser.pick(&[4usize, 1, 20]);
        let n_keys = *chooser.pick(&[6usize, 3, 12]);
        let mutable_values = chooser.chance(1, 2);
        let initial_entries = chooser.weighted(&[2, 2, 1, 1, 1]);
        let cfg = SimCfg {
            switch_den,
            crash_per_mille: crash,
            max_crashes: if crash > 0 { 2 } else { 0 },
            locks_ineffective,
            max_events: 600,
            ..SimCfg::default()
        };
        out.config = format!(
            "procs={n_procs} cmds={cmds:?} switch=1/{switch_den} crash={crash}/1000 locks_ineffective={locks_ineffective} key_size={key_size} n_keys={n_keys} mutable_values={mutable_values} initial={initial_entries}"
        );
        let dir = scratch.join("table");
        std::fs::create_dir_all(&dir).unwrap();
        let shared = Arc::new(Shared {
            model: Mutex::new(Model::default()),
            stores: Mutex::new((0..n_procs).map(|_| None).collect()),
            key_size,
            n_keys,
            mutable_values,
            dir: dir.clone(),
        });
        // --- initial content, written sequentially before anybody runs
        {
            let store = TableStore::init(dir.clone(), key_size);
            let head = store.get_head().unwrap();
            let mut mt = head.start_mutation();
            let mut entries = vec![];
            for j in 0..initial_entries {
                let k = make_key(key_size, chooser.choose(n_keys));
                let v = value_for(mutable_values, &k, format!("init{j}"));
                entries.retain(|(k2, _): &(Vec<u8>, Vec<u8>)| *k2 != k);
                entries.push((k.clone(), v.clone()));
                mt.add_entry(k, v);
            }
            store.save_table(mt).unwrap();
            let mut model = shared.model.lock().unwrap();
            model.saves.push(SaveRec {
                id: 0,
                pid: 98,
                cmd: 0,
                start_seq: 0,
                done_seq: Some(0),
                entries,
            });
            model.first_save_done = true;
        }
        let sim = Sim::new(scratch.to_path_buf(), chooser, cfg);
        // --- invariant evaluated at every event: heads never empty
        {
            let shared = shared.clone();
            sim.set_observer(Arc::new(move |sim: &Sim, ev| {
                let heads = list_heads(&shared.dir);
                let mut model = shared.model.lock().unwrap();
                if heads.len() >= 2 {
                    *model.probes.entry("event_with_2plus_heads").or_insert(0) += 1;
                    model.last_multi_head_seq = ev.seq;
                }
                if heads.is_empty() && model.first_save_done && !model.violations.iter().any(|v| v.0 == "heads_empty") {
                    let class = classify_heads_empty(sim);
                    model.violations.push((
                        "heads_empty".to_string(),
                        format!("tablesim:heads_empty:{class}"),
                        format!("heads directory is empty before event {} ({} by p{})", ev.seq, ev.kind, ev.pid),
                        ev.seq,
                    ));
                    drop(model);
                    sim.request_stop();
                }
            }));
        }
        let body_shared = shared.clone();
        sim.run(
            &cmds,
            Arc::new(move |sim, slot, cmd| TableSim::body(&body_shared, sim, slot, cmd)),
            true,
        );
        // --- quiescence: a fresh instance sees every completed save
        let aborted = sim.inner.lock().unwrap().aborted.clone();
        let had_violation = !shared.model.lock().unwrap().violations.is_empty();
        if !had_violation && aborted.is_none() {
            let end_seq = cur_seq(&sim) + 1;
            let fresh = TableStore::load(dir.clone(), key_size);
            match fresh.get_head() {
                Ok(head) => {
                    check_read(&shared, &sim, &head, end_seq, "quiescent", true);
                    let heads = list_heads(&dir);
                    if heads.len() != 1 {
                        shared.model.lock().unwrap().violations.push((
                            "not_single_head".to_string(),
                            "tablesim:not_single_head".to_string(),
                            format!("{} heads after a quiescent get_head", heads.len()),
                            0,
                        ));
                    }
                    // and again after a second load (merge result is stable)
                    let fresh2 = TableStore::load(dir.clone(), key_size);
                    if let Ok(head2) = fresh2.get_head() {
                        check_read(&shared, &sim, &head2, end_seq, "quiescent2", true);
                    }
                }
                Err(e) => {
                    shared.model.lock().unwrap().violations.push((
                        "api_error".to_string(),
                        "tablesim:api_error:quiescent_get_head".to_string(),
                        format!("quiescent get_head failed: {e}"),
                        0,
                    ));
                }
            }
        }
        sim.shutdown();
        // --- collect
        let model = shared.model.lock().unwrap();
        for (inv, key, msg, at) in &model.violations {
            out.violate(prop_or(prop), inv, key.clone(), msg.clone(), *at);
        }
        let inner = sim.inner.lock().unwrap();
        out.events = inner.log.len() as u64;
        out.fault("crash", inner.crashes);
        if locks_ineffective {
            out.fault("locks_ineffective", inner.counters.get("lock_granted_ineffective").copied().unwrap_or(0));
        }
        for (k, v) in &inner.counters {
            out.probe(k, *v);
        }
        for (k, v) in &model.probes {
            out.probe(k, *v);
        }
        // stale writer: a save that completed after another save which
        // started later completed.
        let stale = model
            .saves
            .iter()
            .filter(|s| {
                s.done_seq.is_some_and(|d| {
                    model
                        .saves
                        .iter()
                        .any(|s2| s2.id != s.id && s2.start_seq > s.start_seq && s2.done_seq.is_some_and(|d2| d2 < d))
                })
            })
            .count() as u64;
        out.fault("stale_writer", stale);
        out.probe("saves_completed", model.saves.iter().filter(|s| s.done_seq.is_some()).count() as u64);
        // interleaving inside a command?
        let mut interleaved = false;
        {
            let mut last: Option<(usize, usize)> = None;
            let mut seen_open: BTreeMap<usize, usize> = BTreeMap::new();
            for e in inner.log.iter().filter(|e| !e.kind.starts_with("note:") && e.kind != "cmd:end") {
                if let Some((lp, _)) = last
                    && lp != e.pid
                    && seen_open.get(&e.pid) == Some(&e.cmd)
                {
                    interleaved = true;
                }
                seen_open.insert(e.pid, e.cmd);
                last = Some((e.pid, e.cmd));
            }
        }
        out.nontrivial = interleaved || inner.crashes > 0;
        if let Some(a) = &inner.aborted {
            if a.contains("budget") {
                out.probe("event_budget_exhausted", 1);
            } else {
                out.harness_error = Some(a.clone());
            }
        }
        out.trace = inner.log.iter().map(|e| e.render()).collect();
        out.choices = inner.chooser.record.clone();
        drop(inner);
        out.signature = sim.signature();
        out
    }
}

fn prop_or(p: &str) -> &str {
    if p.is_empty() { "C21" } else { p }
}
