//! TaskSim — the tree merger's private scheduler (C07).
//!
//! `merge_trees` keeps up to `store.concurrency()` backend futures in a
//! `FuturesUnordered` and processes whichever finishes first. The harness
//! wraps the real `SimpleBackend` in a backend whose every read/write future
//! stays `Pending` for a seeded number of polls (so the completion order is
//! owned by the seed), whose concurrency limit is drawn per run, and whose
//! reads can fail. `pollster::block_on` is the executor: no real threads.

use std::collections::BTreeMap;
use std::collections::BTreeSet;
use std::fmt::Debug;
use std::future::Future;
use std::path::Path;
use std::pin::Pin;
use std::sync::Arc;
use std::sync::Mutex;
use std::task::Context;
use std::task::Poll;
use std::time::SystemTime;

use async_trait::async_trait;
use futures::AsyncRead;
use futures::stream::BoxStream;
use jj_lib::backend::Backend;
use jj_lib::backend::BackendError;
use jj_lib::backend::BackendResult;
use jj_lib::backend::ChangeId;
use jj_lib::backend::Commit;
use jj_lib::backend::CommitId;
use jj_lib::backend::CopyHistory;
use jj_lib::backend::CopyId;
use jj_lib::backend::CopyRecord;
use jj_lib::backend::FileId;
use jj_lib::backend::MergedTreeValue;
use jj_lib::backend::RelatedCopy;
use jj_lib::backend::SigningFn;
use jj_lib::backend::SymlinkId;
use jj_lib::backend::Tree;
use jj_lib::backend::TreeId;
use jj_lib::backend::TreeValue;
use jj_lib::index::Index;
use jj_lib::merge::Merge;
use jj_lib::merged_tree::MergedTree;
use jj_lib::conflict_labels::ConflictLabels;
use jj_lib::merged_tree_builder::MergedTreeBuilder;
use jj_lib::repo_path::RepoPath;
use jj_lib::repo_path::RepoPathBuf;
use jj_lib::signing::Signer;
use jj_lib::simple_backend::SimpleBackend;
use jj_lib::store::Store;
use jj_lib::tree_merge::MergeOptions;
use jj_lib::tree_merge::merge_trees;
use jj_lib::tree_merge::resolve_file_values;
use pollster::FutureExt as _;

use crate::core::chooser::Chooser;
use crate::core::runner::Budget;
use crate::core::runner::Engine;
use crate::core::runner::RunOutcome;
use crate::core::runner::Tier;

pub struct TaskSim;

/// Stays pending for `n` polls, waking itself each time.
struct YieldN(usize);

impl Future for YieldN {
    type Output = ();
    fn poll(mut self: Pin<&mut Self>, cx: &mut Context<'_>) -> Poll<()> {
        if self.0 == 0 {
            Poll::Ready(())
        } else {
            self.0 -= 1;
            cx.waker().wake_by_ref();
            Poll::Pending
        }
    }
}

#[derive(Default)]
struct Sched {
    chooser: Option<Chooser>,
    /// 0 = no delays at all (the sequential reference schedule)
    max_delay: usize,
    fail_reads_per_mille: usize,
    failures_left: usize,
    log: Vec<String>,
    in_flight: usize,
    max_in_flight: usize,
    injected: u64,
    ops: u64,
}

#[derive(Debug)]
struct SimBackend {
    inner: SimpleBackend,
    concurrency: usize,
    sched: Arc<Mutex<Sched>>,
}

impl Debug for Sched {
    fn fmt(&self, f: &mut std::fmt::Formatter<'_>) -> std::fmt::Result {
        f.write_str("Sched")
    }
}

struct InFlight(Arc<Mutex<Sched>>);
impl Drop for InFlight {
    fn drop(&mut self) {
        self.0.lock().unwrap().in_flight -= 1;
    }
}

impl SimBackend {
    /// Delays the calling future by a seeded number of polls; may inject a
    /// read failure.
    async fn gate(&self, what: &str, path: &RepoPath, is_read: bool) -> BackendResult<InFlight> {
        let (delay, fail) = {
            let mut s = self.sched.lock().unwrap();
            s.ops += 1;
            s.in_flight += 1;
            s.max_in_flight = s.max_in_flight.max(s.in_flight);
            let max_delay = s.max_delay;
            let pm = s.fail_reads_per_mille;
            let can_fail = is_read && s.failures_left > 0 && pm > 0;
            let (delay, fail) = match s.chooser.as_mut() {
                Some(ch) if max_delay > 0 => {
                    let d = ch.choose(max_delay + 1);
                    let f = can_fail && ch.chance(pm, 1000);
                    (d, f)
                }
                _ => (0, false),
            };
            if fail {
                s.failures_left -= 1;
                s.injected += 1;
            }
            s.log.push(format!("{what} {} delay={delay}{}", path.as_internal_file_string(), if fail { " FAULT:read_error" } else { "" }));
            (delay, fail)
        };
        let guard = InFlight(self.sched.clone());
        YieldN(delay).await;
        if fail {
            return Err(BackendError::Other("injected: backend read failed".into()));
        }
        Ok(guard)
    }
}

#[async_trait]
impl Backend for SimBackend {
    fn name(&self) -> &str {
        "sim"
    }
    fn commit_id_length(&self) -> usize {
        self.inner.commit_id_length()
    }
    fn change_id_length(&self) -> usize {
        self.inner.change_id_length()
    }
    fn root_commit_id(&self) -> &CommitId {
        self.inner.root_commit_id()
    }
    fn root_change_id(&self) -> &ChangeId {
        self.inner.root_change_id()
    }
    fn empty_tree_id(&self) -> &TreeId {
        self.inner.empty_tree_id()
    }
    fn concurrency(&self) -> usize {
        self.concurrency
    }
    async fn read_file(&self, path: &RepoPath, id: &FileId) -> BackendResult<Pin<Box<dyn AsyncRead + Send>>> {
        let _g = self.gate("read_file", path, true).await?;
        self.inner.read_file(path, id).await
    }
    async fn write_file(&self, path: &RepoPath, contents: &mut (dyn AsyncRead + Send + Unpin)) -> BackendResult<FileId> {
        let _g = self.gate("write_file", path, false).await?;
        self.inner.write_file(path, contents).await
    }
    async fn read_symlink(&self, path: &RepoPath, id: &SymlinkId) -> BackendResult<String> {
        let _g = self.gate("read_symlink", path, true).await?;
        self.inner.read_symlink(path, id).await
    }
    async fn write_symlink(&self, path: &RepoPath, target: &str) -> BackendResult<SymlinkId> {
        let _g = self.gate("write_symlink", path, false).await?;
        self.inner.write_symlink(path, target).await
    }
    async fn read_copy(&self, id: &CopyId) -> BackendResult<CopyHistory> {
        self.inner.read_copy(id).await
    }
    async fn write_copy(&self, copy: &CopyHistory) -> BackendResult<CopyId> {
        self.inner.write_copy(copy).await
    }
    async fn get_related_copies(&self, copy_id: &CopyId) -> BackendResult<Vec<RelatedCopy>> {
        self.inner.get_related_copies(copy_id).await
    }
    async fn read_tree(&self, path: &RepoPath, id: &TreeId) -> BackendResult<Tree> {
        let _g = self.gate("read_tree", path, true).await?;
        self.inner.read_tree(path, id).await
    }
    async fn write_tree(&self, path: &RepoPath, contents: &Tree) -> BackendResult<TreeId> {
        let _g = self.gate("write_tree", path, false).await?;
        self.inner.write_tree(path, contents).await
    }
    async fn read_commit(&self, id: &CommitId) -> BackendResult<Commit> {
        self.inner.read_commit(id).await
    }
    async fn write_commit(&self, contents: Commit, sign_with: Option<&mut SigningFn>) -> BackendResult<(CommitId, Commit)> {
        self.inner.write_commit(contents, sign_with).await
    }
    fn get_copy_records(&self, paths: Option<&[RepoPathBuf]>, root: &CommitId, head: &CommitId) -> BackendResult<BoxStream<'_, BackendResult<CopyRecord>>> {
        self.inner.get_copy_records(paths, root, head)
    }
    fn gc(&self, index: &dyn Index, keep_newer: SystemTime) -> BackendResult<()> {
        self.inner.gc(index, keep_newer)
    }
}

fn user_settings() -> jj_lib::settings::UserSettings {
    let text = r#"
user.name = "Sim User"
user.email = "sim.user@example.com"
operation.username = "sim"
operation.hostname = "sim.example.com"
"#;
    let mut config = jj_lib::config::StackedConfig::with_defaults();
    config.add_layer(jj_lib::config::ConfigLayer::parse(jj_lib::config::ConfigSource::User, text).unwrap());
    jj_lib::settings::UserSettings::from_config(config).unwrap()
}

fn new_store(dir: &Path, init: bool, concurrency: usize, sched: &Arc<Mutex<Sched>>) -> Arc<Store> {
    let settings = user_settings();
    let inner = if init { SimpleBackend::init(dir) } else { SimpleBackend::load(dir) };
    Store::new(
        Box::new(SimBackend {
            inner,
            concurrency,
            sched: sched.clone(),
        }),
        Signer::from_settings(&settings).unwrap(),
        MergeOptions::from_settings(&settings).unwrap(),
    )
}

const PATHS: &[&str] = &["a", "b", "d/x", "d/y", "d/e/z", "f"];

fn rp(p: &str) -> RepoPathBuf {
    RepoPathBuf::from_internal_string(p).unwrap()
}

/// One generated input tree. Contents are 4-line files whose lines come in a
/// few variants, so that merges resolve, conflict or cancel.
fn gen_tree(store: &Arc<Store>, ch: &mut Chooser, base: Option<&BTreeMap<String, String>>) -> (MergedTree, BTreeMap<String, String>) {
    let desc = gen_desc(ch, base);
    (build_tree(store, &desc), desc)
}

fn gen_desc(ch: &mut Chooser, base: Option<&BTreeMap<String, String>>) -> BTreeMap<String, String> {
    let mut desc: BTreeMap<String, String> = BTreeMap::new();
    let d_is_file = ch.chance(1, 8);
    for p in PATHS {
        if d_is_file && p.starts_with("d/") {
            continue;
        }
        // mostly inherit from the base tree so that merges are non-trivial but related
        if let Some(base) = base
            && ch.chance(3, 5)
        {
            if let Some(v) = base.get(*p) {
                desc.insert((*p).to_string(), v.clone());
            }
            continue;
        }
        match ch.weighted(&[6, 2, 1, 1]) {
            0 => {
                let lines: Vec<String> = (0..4).map(|i| format!("l{i} v{}", ch.choose(3))).collect();
                desc.insert((*p).to_string(), format!("F:{}", lines.join("|")));
            }
            1 => {}
            2 => {
                desc.insert((*p).to_string(), format!("S:t{}", ch.choose(2)));
            }
            _ => {
                let lines: Vec<String> = (0..4).map(|i| format!("l{i} v{}", ch.choose(2))).collect();
                desc.insert((*p).to_string(), format!("X:{}", lines.join("|")));
            }
        }
    }
    if d_is_file {
        desc.insert("d".to_string(), format!("F:dfile v{}", ch.choose(2)));
    }
    desc
}

fn build_tree(store: &Arc<Store>, desc: &BTreeMap<String, String>) -> MergedTree {
    let mut b = MergedTreeBuilder::new(store.empty_merged_tree());
    for (p, v) in desc {
        let path = rp(p);
        let value = match v.split_once(':').unwrap() {
            ("S", t) => TreeValue::Symlink(store.write_symlink(&path, t).block_on().unwrap()),
            (kind, body) => {
                let content = format!("{}\n", body.replace('|', "\n"));
                let id = store.write_file(&path, &mut content.as_bytes()).block_on().unwrap();
                TreeValue::File {
                    id,
                    executable: kind == "X",
                    copy_id: CopyId::placeholder(),
                }
            }
        };
        b.set_or_remove(path, Merge::normal(value));
    }
    b.write_tree().block_on().unwrap()
}

/// Makes `q` a four-line file in this description (dropping what was below it).
fn make_file_at(desc: &mut BTreeMap<String, String>, q: &str, lines: &[String]) {
    let prefix = format!("{q}/");
    desc.retain(|p, _| !p.starts_with(&prefix));
    desc.insert(q.to_string(), format!("F:{}", lines.join("|")));
}

/// Makes `q` a directory with fixed content in this description.
fn make_dir_at(desc: &mut BTreeMap<String, String>, q: &str, variant: usize) {
    let prefix = format!("{q}/");
    desc.retain(|p, _| p != q && !p.starts_with(&prefix));
    desc.insert(format!("{q}/k"), format!("F:kept v{variant}"));
    desc.insert(format!("{q}/m"), "S:t0".to_string());
}

/// All leaf paths (files/symlinks) of single trees, recursively.
fn tree_paths(store: &Arc<Store>, ids: &Merge<TreeId>) -> BTreeSet<String> {
    let mut out = BTreeSet::new();
    for id in ids.iter() {
        let t = MergedTree::resolved(store.clone(), id.clone());
        for (p, _) in t.entries() {
            out.insert(p.as_internal_file_string().to_string());
        }
    }
    out
}

fn value_at(store: &Arc<Store>, ids: &Merge<TreeId>, path: &str) -> MergedTreeValue {
    let t = MergedTree::new(store.clone(), ids.clone(), ConflictLabels::unlabeled());
    t.path_value(&rp(path)).block_on().unwrap()
}

/// The path-wise definition (C07): trivial resolution first; directories merge
/// entry by entry; everything else goes through the per-path file merge.
fn expected_value(store: &Arc<Store>, inputs: &Merge<TreeId>, path: &str) -> MergedTreeValue {
    // an ancestor directory that resolves trivially as a whole decides the path
    let same_change = store.merge_options().same_change;
    let mut prefix = String::new();
    for comp in path.split('/') {
        if !prefix.is_empty() {
            prefix.push('/');
        }
        prefix.push_str(comp);
        let vals = value_at(store, inputs, &prefix);
        if prefix == path {
            if let Some(v) = vals.resolve_trivial(same_change) {
                return Merge::resolved(v.clone());
            }
            return resolve_file_values(store, &rp(path), vals).block_on().unwrap();
        }
        if let Some(v) = vals.resolve_trivial(same_change) {
            // the whole directory (or a file in its place) is taken from one side
            return match v {
                Some(TreeValue::Tree(id)) => {
                    let rest = &path[prefix.len() + 1..];
                    let sub = MergedTree::resolved(store.clone(), id.clone());
                    // path_value on a subtree: rebuild by walking
                    let mut cur = sub;
                    let mut val: MergedTreeValue = Merge::absent();
                    let comps: Vec<&str> = rest.split('/').collect();
                    for (i, c) in comps.iter().enumerate() {
                        let v = cur.path_value(&rp(c)).block_on().unwrap();
                        if i + 1 == comps.len() {
                            val = v;
                        } else if let Some(Some(TreeValue::Tree(tid))) = v.as_resolved() {
                            cur = MergedTree::resolved(store.clone(), tid.clone());
                        } else {
                            val = Merge::absent();
                            break;
                        }
                    }
                    val
                }
                _ => Merge::absent(),
            };
        }
        if !vals.is_tree() {
            // a file/directory conflict above this path: everything below is
            // part of that conflict; judged at the conflicting path itself
            return Merge::absent();
        }
    }
    Merge::absent()
}

impl Engine for TaskSim {
    fn name(&self) -> &'static str {
        "tasksim"
    }

    fn properties(&self) -> Vec<&'static str> {
        vec!["C07"]
    }

    fn budget(&self, _prop: &str, tier: Tier) -> Budget {
        match tier {
            Tier::Quick => Budget { runs: 8_000, max_seconds: 60 },
            Tier::Thorough => Budget { runs: 800_000, max_seconds: 900 },
        }
    }

    fn rule(&self, _prop: &str) -> String {
        "one evaluation = one 3-, 5- or 7-way merge of generated trees executed under a seeded completion order of every backend \
         read/write future (0-4 extra polls each), a drawn concurrency limit and optional read failures, compared with the sequential \
         schedule and with the path-wise definition; distinct = distinct hash of the ordered backend-operation log; non-trivial = at least \
         two backend operations were in flight at once or a read failed"
            .to_string()
    }

    fn components_real(&self) -> Vec<&'static str> {
        vec!["jj_lib::tree_merge (merge_trees, TreeMerger, resolve_file_values)", "jj_lib::merged_tree", "jj_lib::store::Store", "jj_lib::simple_backend (object storage on tmpfs)"]
    }

    fn components_stub(&self) -> Vec<&'static str> {
        vec!["Backend wrapper that delays every future by a seeded number of polls, reports a drawn concurrency limit and injects read errors", "executor: pollster::block_on (single thread)"]
    }

    fn assumptions(&self, _prop: &str) -> Vec<String> {
        vec!["resolve_file_values (the per-path file merge) is the reference for non-trivial file merges; its own correctness is C04 (pure, not claimed)".to_string()]
    }

    fn fault_kinds(&self) -> Vec<&'static str> {
        vec!["backend_read_error", "reordered_completion", "concurrency_limit_1"]
    }

    #[allow(clippy::too_many_lines)]
    fn run(&self, prop: &str, mut chooser: Chooser, scratch: &Path) -> RunOutcome {
        let mut out = RunOutcome::default();
        let dir = scratch.join("store");
        std::fs::create_dir_all(&dir).unwrap();
        let sched = Arc::new(Mutex::new(Sched::default()));
        let setup = new_store(&dir, true, 1, &sched);
        // --- inputs
        let n_sides = *chooser.pick(&[3usize, 3, 5, 7]);
        let (base_tree, base_desc) = gen_tree(&setup, &mut chooser, None);
        let mut ids: Vec<TreeId> = vec![];
        let mut descs: Vec<BTreeMap<String, String>> = vec![];
        for i in 0..n_sides {
            // removes (odd positions) are frequently the base itself
            let d = if i % 2 == 1 && chooser.chance(1, 2) {
                base_desc.clone()
            } else {
                gen_desc(&mut chooser, Some(&base_desc))
            };
            descs.push(d);
        }
        // Shape: at one path, the same directory appears in one added and one
        // removed term (so it cancels), while the remaining terms hold a file
        // whose versions change different lines (or the same line). The
        // path-wise merge is then a content merge of the file versions.
        if n_sides >= 5 && chooser.chance(1, 3) {
            let q = *chooser.pick(&["d", "d/e", "f"]);
            let rem = 1 + 2 * chooser.choose(n_sides / 2);
            let mut add = 2 * chooser.choose(n_sides / 2 + 1);
            if n_sides >= 7 && chooser.chance(1, 3) {
                // two cancelling pairs
                let rem2 = 1 + 2 * chooser.choose(n_sides / 2);
                let add2 = 2 * chooser.choose(n_sides / 2 + 1);
                if rem2 != rem && add2 != add {
                    make_dir_at(&mut descs[rem2], q, 1);
                    make_dir_at(&mut descs[add2], q, 1);
                }
            }
            let variant = chooser.choose(2);
            let base_lines: Vec<String> = (0..4).map(|i| format!("l{i} base")).collect();
            for (i, d) in descs.iter_mut().enumerate() {
                if d.contains_key(&format!("{q}/k")) {
                    continue;
                }
                if i == rem || i == add {
                    continue;
                }
                let mut lines = base_lines.clone();
                if i % 2 == 0 {
                    // added terms edit one line each
                    let l = if chooser.chance(1, 4) { 0 } else { (i / 2) % 4 };
                    lines[l] = format!("l{l} side{i}");
                }
                make_file_at(d, q, &lines);
            }
            if add == rem {
                add = 0;
            }
            make_dir_at(&mut descs[rem], q, variant);
            make_dir_at(&mut descs[add], q, variant);
            out.probe("shape_directory_cancels_between_file_terms", 1);
        }
        for d in &descs {
            let t = build_tree(&setup, d);
            ids.push(t.tree_ids().as_resolved().unwrap().clone());
        }
        let _ = &base_tree;
        let inputs: Merge<TreeId> = Merge::from_vec(ids);
        let concurrency = *chooser.pick(&[2usize, 1, 3, 10]);
        let max_delay = *chooser.pick(&[3usize, 1, 4]);
        let fail = *chooser.pick(&[0usize, 0, 0, 60]);
        out.config = format!("sides={n_sides} concurrency={concurrency} max_delay={max_delay} read_error={fail}/1000");
        let mut trace: Vec<String> = descs.iter().enumerate().map(|(i, d)| format!("input[{i}] = {d:?}")).collect();
        // --- reference: sequential schedule, no delays, no faults
        let reference = {
            *sched.lock().unwrap() = Sched::default();
            let store = new_store(&dir, false, 1, &sched);
            merge_trees(&store, inputs.clone()).block_on()
        };
        let reference = match reference {
            Ok(r) => r,
            Err(e) => {
                out.violate(prop, "reference_merge_failed", "tasksim:reference_merge_failed".into(), format!("fault-free sequential merge failed: {e}"), 0);
                out.choices = chooser.record.clone();
                return out;
            }
        };
        // --- the simulated schedule
        {
            let mut s = sched.lock().unwrap();
            *s = Sched {
                chooser: Some(std::mem::replace(&mut chooser, Chooser::from_seed(0))),
                max_delay,
                fail_reads_per_mille: fail,
                failures_left: if fail > 0 { 1 } else { 0 },
                ..Sched::default()
            };
        }
        let store = new_store(&dir, false, concurrency, &sched);
        let result = merge_trees(&store, inputs.clone()).block_on();
        let (log, injected, max_in_flight, ops) = {
            let mut s = sched.lock().unwrap();
            chooser = s.chooser.take().unwrap();
            (std::mem::take(&mut s.log), s.injected, s.max_in_flight, s.ops)
        };
        trace.extend(log.iter().cloned());
        out.events = ops;
        out.fault("backend_read_error", injected);
        if concurrency == 1 {
            out.fault("concurrency_limit_1", 1);
        }
        let mut h: u64 = 0xcbf2_9ce4_8422_2325;
        for l in &log {
            for b in l.bytes() {
                h ^= u64::from(b);
                h = h.wrapping_mul(0x100_0000_01b3);
            }
        }
        out.signature = h;
        out.nontrivial = max_in_flight >= 2 || injected > 0;
        if max_in_flight >= 2 {
            out.fault("reordered_completion", 1);
        }
        out.probe("max_in_flight_ge_3", u64::from(max_in_flight >= 3));
        let at = trace.len() as u64;
        match (&result, injected) {
            (Err(e), 0) => {
                out.violate(prop, "merge_failed_without_fault", "tasksim:merge_failed_without_fault".into(), format!("merge_trees failed although no fault was injected: {e}"), at);
            }
            (Ok(r), 0) => {
                if *r != reference {
                    out.violate(
                        prop,
                        "result_depends_on_completion_order",
                        "tasksim:result_depends_on_completion_order".into(),
                        format!("merge under the simulated schedule gives {:?}, the sequential schedule gives {:?}", r, reference),
                        at,
                    );
                }
            }
            (Ok(r), _) => {
                // a failed read must not yield a tree; unless the failing
                // future's result was not needed... every enqueued read is
                // awaited, so Ok after an injected error is a violation
                out.violate(prop, "read_error_swallowed", "tasksim:read_error_swallowed".into(), format!("a backend read failed but merge_trees returned Ok({r:?})"), at);
            }
            (Err(_), _) => {
                out.probe("merge_failed_after_read_error", 1);
                // retry without faults gives the reference result
                *sched.lock().unwrap() = Sched::default();
                let store2 = new_store(&dir, false, concurrency, &sched);
                match merge_trees(&store2, inputs.clone()).block_on() {
                    Ok(r2) if r2 == reference => {}
                    other => {
                        out.violate(prop, "retry_after_error_differs", "tasksim:retry_after_error_differs".into(), format!("retry after an injected read error gives {other:?}, expected {reference:?}"), at);
                    }
                }
            }
        }
        // --- the reference result against the path-wise definition
        *sched.lock().unwrap() = Sched::default();
        let check_store = new_store(&dir, false, 1, &sched);
        let mut all_paths = tree_paths(&check_store, &inputs);
        all_paths.extend(tree_paths(&check_store, &reference));
        let mut any_conflict = false;
        let same_change = check_store.merge_options().same_change;
        for p in &all_paths {
            let expect = expected_value(&check_store, &inputs, p);
            let got = value_at(&check_store, &reference, p);
            if !expect.is_resolved() {
                any_conflict = true;
            }
            // A path below a file/directory conflict is judged at the
            // conflicting ancestor; skip when an ancestor conflicts.
            let ancestor_conflict = {
                let mut pre = String::new();
                let mut found = false;
                let comps: Vec<&str> = p.split('/').collect();
                for c in &comps[..comps.len() - 1] {
                    if !pre.is_empty() {
                        pre.push('/');
                    }
                    pre.push_str(c);
                    let v = value_at(&check_store, &inputs, &pre);
                    if v.resolve_trivial(same_change).is_none()
                        && !v.is_tree()
                        // directories that cancel between file terms leave a plain
                        // file merge, which may well resolve
                        && !resolve_file_values(&check_store, &rp(&pre), v).block_on().unwrap().is_resolved()
                    {
                        found = true;
                    }
                }
                found
            };
            if ancestor_conflict {
                any_conflict = true;
                out.probe("file_directory_conflict", 1);
                continue;
            }
            let same = got == expect || got.clone().simplify() == expect.clone().simplify();
            if !same {
                out.violate(
                    prop,
                    "path_value_differs_from_pathwise_merge",
                    "tasksim:path_value_differs_from_pathwise_merge".into(),
                    format!("path {p}: merged tree has {got:?}, merging the path's entries on their own gives {expect:?}"),
                    at,
                );
                break;
            }
        }
        if let Some(t) = inputs.resolve_trivial(same_change)
            && reference.as_resolved() != Some(t)
        {
            out.violate(prop, "trivial_tree_merge_not_taken", "tasksim:trivial_tree_merge_not_taken".into(), format!("the inputs resolve trivially to {t:?} but the merge returned {reference:?}"), at);
        }
        if out.violations.is_empty() && reference.is_resolved() == any_conflict {
            out.violate(
                prop,
                "conflict_freedom_mismatch",
                "tasksim:conflict_freedom_mismatch".into(),
                format!("result resolved = {}, but some path conflicts = {any_conflict}", reference.is_resolved()),
                at,
            );
        }
        if any_conflict {
            out.probe("merge_with_conflict", 1);
        } else {
            out.probe("merge_conflict_free", 1);
        }
        out.trace = trace;
        out.choices = chooser.record.clone();
        out
    }
}
