//! RepoSim — concurrent jj processes on one repository
//! (C10 C11 C13 C14 C16 C17 C18 C22 C46).
//!
//! Real code: RepoLoader, load_at_head / resolve_op_heads / merge_operations,
//! MutableRepo, Transaction::write / publish, SimpleOpStore,
//! SimpleOpHeadsStore, DefaultIndexStore, SimpleBackend or GitBackend, all on
//! a tmpfs directory. Simulated: process interleaving at the file-system
//! primitives (hook H1), flock (H2), crashes, I/O errors, clock skew.

use std::collections::BTreeMap;
use std::collections::BTreeSet;
use std::collections::HashMap;
use std::collections::HashSet;
use std::path::Path;
use std::path::PathBuf;
use std::sync::Arc;
use std::sync::Mutex;

use futures::StreamExt as _;
use jj_lib::backend;
use jj_lib::backend::ChangeId;
use jj_lib::backend::CommitId;
use jj_lib::backend::Signature;
use jj_lib::backend::Timestamp;
use jj_lib::backend::MillisSinceEpoch;
use jj_lib::commit::Commit;
use jj_lib::config::ConfigLayer;
use jj_lib::config::ConfigSource;
use jj_lib::config::StackedConfig;
use jj_lib::git_backend::GitBackend;
use jj_lib::merged_tree::MergedTree;
use jj_lib::object_id::ObjectId as _;
use jj_lib::op_store;
use jj_lib::op_store::OperationId;
use jj_lib::op_store::RefTarget;
use jj_lib::op_store::ViewId;
use jj_lib::operation::Operation;
use jj_lib::ref_name::RefName;
use jj_lib::ref_name::RefNameBuf;
use jj_lib::ref_name::WorkspaceName;
use jj_lib::ref_name::WorkspaceNameBuf;
use jj_lib::repo::MutableRepo;
use jj_lib::repo::ReadonlyRepo;
use jj_lib::repo::Repo;
use jj_lib::repo::RepoLoader;
use jj_lib::repo_path::RepoPathBuf;
use jj_lib::rewrite::EmptyBehavior;
use jj_lib::rewrite::RebaseOptions;
use jj_lib::rewrite::RebasedCommit;
use jj_lib::rewrite::RewriteRefsOptions;
use jj_lib::revset::RevsetExpression;
use jj_lib::settings::UserSettings;
use jj_lib::signing::Signer;
use jj_lib::simple_backend::SimpleBackend;
use jj_lib::store::Store;
use pollster::FutureExt as _;

use crate::core::chooser::Chooser;
use crate::core::runner::Budget;
use crate::core::runner::Engine;
use crate::core::runner::RunOutcome;
use crate::core::runner::Tier;
use crate::core::sched;
use crate::core::sched::Sim;
use crate::core::sched::SimCfg;

pub struct RepoSim;

// ---------------------------------------------------------------------------
// model

#[derive(Clone, Debug, PartialEq, Eq)]
enum RefKind {
    Bookmark,
    Tag,
    Wc,
}

/// Value of a ref as the set of change ids of its add-terms (`None` = an
/// absent term, i.e. deleted / never set). Comparing by change id makes the
/// value stable under rewrites and rebases.
type RefVal = BTreeSet<Option<ChangeId>>;

/// A ref whose value differs between a transaction's base view and the view it
/// wrote (explicit sets, and implicit moves caused by abandoning the target).
#[derive(Clone, Debug)]
struct RefWrite {
    kind: RefKind,
    name: String,
    before: RefVal,
    after: RefVal,
    /// commit ids behind `before` and `after`
    ids: Vec<CommitId>,
}

#[derive(Clone, Debug, Default)]
struct TxRec {
    id: usize,
    pid: usize,
    cmd: usize,
    op_id: Option<OperationId>,
    parent_ops: Vec<OperationId>,
    created: Vec<(CommitId, ChangeId)>,
    rewritten: Vec<(CommitId, CommitId, ChangeId)>,
    abandoned: Vec<(CommitId, ChangeId)>,
    divergent: Vec<ChangeId>,
    divergent_old: Vec<CommitId>,
    divergent_new: Vec<CommitId>,
    auto_rebased: Vec<CommitId>,
    /// (old, new) for every rewrite this transaction made, automatic rebases included
    rewrite_pairs: Vec<(CommitId, CommitId)>,
    refs: Vec<RefWrite>,
    publish_returned: bool,
    description: String,
    restore: bool,
    still_visible_gone: Vec<CommitId>,
    /// hidden commits this transaction deliberately built on (`jj new <hidden id>`),
    /// which makes them and their ancestors visible again
    resurrects: Vec<CommitId>,
}

#[derive(Default)]
struct Model {
    txs: Vec<TxRec>,
    /// operation ids (hex) that were ever listed in the heads directory
    seen_heads: BTreeSet<String>,
    /// op id hex -> parent op ids (hex); content-addressed, so cacheable
    op_parents: BTreeMap<String, Vec<String>>,
    violations: Vec<(String, String, String, String, u64)>, // property, invariant, key, message, at
    probes: BTreeMap<&'static str, u64>,
    /// commits as returned by write_commit (C17)
    written_commits: Vec<(CommitId, backend::Commit)>,
    /// operations / views as written (C16)
    written_ops: Vec<(OperationId, op_store::Operation)>,
    written_views: Vec<(ViewId, op_store::View)>,
    /// values written straight through the OpStore interface (C16 raw fuzz)
    raw_views: Vec<(ViewId, op_store::View)>,
    raw_ops: Vec<(OperationId, op_store::Operation)>,
    max_heads_seen: usize,
    ioerr_cmds: BTreeSet<(usize, usize)>,
    restores_written: u64,
}

impl Model {
    fn violate(&mut self, property: &str, invariant: &str, key: String, message: String, at: u64) {
        if self
            .violations
            .iter()
            .any(|v| v.0 == property && v.1 == invariant)
        {
            return;
        }
        self.violations.push((
            property.to_string(),
            invariant.to_string(),
            key,
            message,
            at,
        ));
    }
    fn probe(&mut self, name: &'static str) {
        *self.probes.entry(name).or_insert(0) += 1;
    }
}

struct RunCfg {
    git: bool,
    heads_focus: bool,
    n_bookmarks: usize,
    skew_ms: Vec<i64>,
    older_op_chance: usize, // 1/x, 0 = never
    changed_paths: bool,
    locks_ineffective: bool,
    /// C22 runs rebuild the index (and the changed-path index with small
    /// `max_commits`) more often, so that partially covered indexes get merged
    c22_focus: bool,
    /// `git.write-change-id-header = false`: the Git commit id then does not cover the change id
    no_change_id_header: bool,
    /// transactions that replace the whole view by an older operation's
    /// (`jj op restore`); only in C46 runs, the C13 intent model cannot follow them
    restores: bool,
}

struct Shared {
    repo_dir: PathBuf,
    model: Mutex<Model>,
    cfg: RunCfg,
    root_op_hex: String,
}

/// Objects written through the store during the current run, for the C17
/// byte-identical read-back by other simulated processes. One run at a time
/// per OS process, so a process-global list (reset at the start of a run) is
/// enough.
#[derive(Clone)]
enum WrittenObject {
    File(RepoPathBuf, jj_lib::backend::FileId, Vec<u8>),
    Symlink(RepoPathBuf, jj_lib::backend::SymlinkId, String),
    /// root tree id and its entries as the writer read them back from its own store
    Tree(jj_lib::backend::TreeId, Vec<(String, jj_lib::backend::TreeValue)>),
}
static WRITTEN_OBJECTS: Mutex<Vec<WrittenObject>> = Mutex::new(Vec::new());

fn record_written(o: WrittenObject) {
    let mut w = WRITTEN_OBJECTS.lock().unwrap();
    if w.len() < 400 {
        w.push(o);
    }
}

/// Writes a file through the store and records it for the read-back check.
fn store_write_file(store: &Arc<Store>, rp: &RepoPathBuf, content: &[u8]) -> Result<jj_lib::backend::FileId, String> {
    let id = store.write_file(rp, &mut &content[..]).block_on().map_err(|e| err_chain(&e))?;
    record_written(WrittenObject::File(rp.clone(), id.clone(), content.to_vec()));
    Ok(id)
}

fn record_root_tree(store: &Arc<Store>, tree: &MergedTree) {
    if let Some(id) = tree.tree_ids().as_resolved()
        && let Ok(t) = store.get_tree(RepoPathBuf::root(), id).block_on()
    {
        let entries = t.entries_non_recursive().map(|e| (e.name().as_internal_str().to_string(), e.value().clone())).collect();
        record_written(WrittenObject::Tree(id.clone(), entries));
    }
}

fn cur_seq(sim: &Sim) -> u64 {
    sim.inner.lock().unwrap().log.last().map_or(0, |e| e.seq)
}

fn short(id: &impl jj_lib::object_id::ObjectId) -> String {
    let h = id.hex();
    h[..h.len().min(8)].to_string()
}

// ---------------------------------------------------------------------------
// settings / clock

fn fmt_ts(ms_of_day: i64, year: i32, tz: &str) -> String {
    let ms = ms_of_day.rem_euclid(86_400_000);
    let s = ms / 1000;
    format!(
        "{year:04}-02-03T{:02}:{:02}:{:02}.{:03}{tz}",
        s / 3600,
        (s / 60) % 60,
        s % 60,
        ms % 1000
    )
}

fn make_settings(seed: u64, op_ms: i64, commit_ms: i64, year: i32, tz: &str, extra: &str) -> UserSettings {
    let text = format!(
        r#"
user.name = "Sim User"
user.email = "sim.user@example.com"
operation.username = "sim"
operation.hostname = "sim.example.com"
debug.randomness-seed = {seed}
debug.commit-timestamp = "{}"
debug.operation-timestamp = "{}"
{extra}
"#,
        fmt_ts(commit_ms, year, tz),
        fmt_ts(op_ms, 2001, "+00:00"),
    );
    let mut config = StackedConfig::with_defaults();
    config.add_layer(ConfigLayer::parse(ConfigSource::User, &text).unwrap());
    UserSettings::from_config(config).unwrap()
}

// ---------------------------------------------------------------------------
// graph read straight from the backend (the oracle for C10 / C18)

#[derive(Default)]
struct Graph {
    parents: HashMap<CommitId, Vec<CommitId>>,
    change: HashMap<CommitId, ChangeId>,
    missing: Vec<CommitId>,
}

impl Graph {
    fn load(store: &Arc<Store>, roots: impl IntoIterator<Item = CommitId>) -> Self {
        let mut g = Self::default();
        let mut stack: Vec<CommitId> = roots.into_iter().collect();
        while let Some(id) = stack.pop() {
            if g.parents.contains_key(&id) {
                continue;
            }
            match store.get_commit(&id) {
                Ok(c) => {
                    let ps: Vec<CommitId> = c.parent_ids().to_vec();
                    g.change.insert(id.clone(), c.change_id().clone());
                    stack.extend(ps.iter().cloned());
                    g.parents.insert(id, ps);
                }
                Err(_) => {
                    g.parents.insert(id.clone(), vec![]);
                    g.missing.push(id);
                }
            }
        }
        g
    }

    fn ancestors(&self, of: &[CommitId]) -> HashSet<CommitId> {
        let mut seen = HashSet::new();
        let mut stack: Vec<CommitId> = of.to_vec();
        while let Some(id) = stack.pop() {
            if !seen.insert(id.clone()) {
                continue;
            }
            if let Some(ps) = self.parents.get(&id) {
                stack.extend(ps.iter().cloned());
            }
        }
        seen
    }

    fn is_ancestor(&self, a: &CommitId, b: &CommitId) -> bool {
        self.ancestors(std::slice::from_ref(b)).contains(a)
    }

    fn heads_of(&self, set: &[CommitId]) -> BTreeSet<CommitId> {
        let uniq: BTreeSet<CommitId> = set.iter().cloned().collect();
        uniq.iter()
            .filter(|c| {
                !uniq
                    .iter()
                    .any(|d| d != *c && self.is_ancestor(c, d))
            })
            .cloned()
            .collect()
    }
}

// ---------------------------------------------------------------------------
// monitors on a loaded repo

/// C10: heads normalised, everything referenced is visible.
fn check_view_c10(shared: &Shared, sim: &Sim, repo: &dyn Repo, ctx: &str) {
    let view = repo.view();
    let heads: Vec<CommitId> = view.heads().iter().cloned().collect();
    let store = repo.store();
    let mut roots = heads.clone();
    for (_, t) in view.local_bookmarks() {
        roots.extend(t.added_ids().cloned());
    }
    roots.extend(view.wc_commit_ids().values().cloned());
    let g = Graph::load(store, roots);
    let root_id = store.root_commit_id().clone();
    let at = cur_seq(sim);
    let mut model = shared.model.lock().unwrap();
    if heads.is_empty() {
        model.violate("C10", "no_heads", "reposim:c10:no_heads".into(), format!("{ctx}: view has no heads"), at);
        return;
    }
    for h in &heads {
        for h2 in &heads {
            if h != h2 && g.is_ancestor(h, h2) {
                model.violate(
                    "C10",
                    "head_is_ancestor_of_head",
                    "reposim:c10:head_is_ancestor_of_head".into(),
                    format!("{ctx}: head {} is an ancestor of head {}", short(h), short(h2)),
                    at,
                );
            }
        }
    }
    if heads.len() > 1 && heads.contains(&root_id) {
        model.violate(
            "C10",
            "root_among_heads",
            "reposim:c10:root_among_heads".into(),
            format!("{ctx}: root commit listed among {} heads", heads.len()),
            at,
        );
    }
    let visible = g.ancestors(&heads);
    for (name, t) in view.local_bookmarks() {
        for id in t.added_ids() {
            if !visible.contains(id) {
                model.violate(
                    "C10",
                    "bookmark_target_not_visible",
                    "reposim:c10:bookmark_target_not_visible".into(),
                    format!("{ctx}: bookmark {} points to {} which is not an ancestor of any head", name.as_str(), short(id)),
                    at,
                );
            }
        }
    }
    for (ws, id) in view.wc_commit_ids() {
        if !visible.contains(id) {
            model.violate(
                "C10",
                "wc_commit_not_visible",
                "reposim:c10:wc_commit_not_visible".into(),
                format!("{ctx}: working copy of {} is {} which is not an ancestor of any head", ws.as_str(), short(id)),
                at,
            );
        }
    }
}

/// C18: the index agrees with the graph read from the backend.
fn check_index_c18(shared: &Shared, sim: &Sim, repo: &dyn Repo, ctx: &str, ch: &mut Vec<usize>) {
    let view = repo.view();
    let heads: Vec<CommitId> = view.heads().iter().cloned().collect();
    let g = Graph::load(repo.store(), heads.clone());
    let index = repo.index();
    let at = cur_seq(sim);
    let mut all: Vec<CommitId> = g.parents.keys().cloned().collect();
    all.sort();
    let mut model = shared.model.lock().unwrap();
    if !g.missing.is_empty() {
        model.violate(
            "C17",
            "visible_commit_unreadable",
            "reposim:c17:visible_commit_unreadable".into(),
            format!("{ctx}: commit {} reachable from the view cannot be read from the backend", short(&g.missing[0])),
            at,
        );
        return;
    }
    if all.len() > 70 {
        model.probe("c18_skipped_large_graph");
        return;
    }
    for c in &all {
        match index.has_id(c).block_on() {
            Ok(true) => {}
            Ok(false) => {
                model.violate(
                    "C18",
                    "has_id_false",
                    "reposim:c18:has_id".into(),
                    format!("{ctx}: index does not contain visible commit {}", short(c)),
                    at,
                );
                return;
            }
            Err(e) => {
                model.violate("C18", "index_error", "reposim:c18:index_error".into(), format!("{ctx}: has_id: {e}"), at);
                return;
            }
        }
    }
    // ancestry for all pairs
    let anc: HashMap<&CommitId, HashSet<CommitId>> = all
        .iter()
        .map(|c| (c, g.ancestors(std::slice::from_ref(c))))
        .collect();
    for a in &all {
        for b in &all {
            let expect = anc[b].contains(a);
            match index.is_ancestor(a, b).block_on() {
                Ok(got) if got == expect => {}
                Ok(got) => {
                    model.violate(
                        "C18",
                        "is_ancestor_mismatch",
                        "reposim:c18:is_ancestor".into(),
                        format!("{ctx}: is_ancestor({}, {}) = {got}, graph says {expect}", short(a), short(b)),
                        at,
                    );
                    return;
                }
                Err(e) => {
                    model.violate("C18", "index_error", "reposim:c18:index_error".into(), format!("{ctx}: is_ancestor: {e}"), at);
                    return;
                }
            }
        }
    }
    // heads / common ancestors of subsets chosen from pre-drawn numbers
    let pick = |n: usize, ch: &mut Vec<usize>| -> usize { ch.pop().unwrap_or(0) % n };
    for _ in 0..3 {
        if all.is_empty() {
            break;
        }
        let k1 = 1 + pick(3, ch);
        let k2 = 1 + pick(3, ch);
        let s1: Vec<CommitId> = (0..k1).map(|_| all[pick(all.len(), ch)].clone()).collect();
        let s2: Vec<CommitId> = (0..k2).map(|_| all[pick(all.len(), ch)].clone()).collect();
        // heads(s1 ∪ s2)
        let both: Vec<CommitId> = s1.iter().chain(s2.iter()).cloned().collect();
        let expect_heads = g.heads_of(&both);
        match index.heads(&mut both.iter()).block_on() {
            Ok(got) => {
                let got: BTreeSet<CommitId> = got.into_iter().collect();
                if got != expect_heads {
                    model.violate(
                        "C18",
                        "heads_mismatch",
                        "reposim:c18:heads".into(),
                        format!(
                            "{ctx}: heads({:?}) = {:?}, graph says {:?}",
                            both.iter().map(short).collect::<Vec<_>>(),
                            got.iter().map(short).collect::<Vec<_>>(),
                            expect_heads.iter().map(short).collect::<Vec<_>>()
                        ),
                        at,
                    );
                    return;
                }
            }
            Err(e) => {
                model.violate("C18", "index_error", "reposim:c18:index_error".into(), format!("{ctx}: heads: {e}"), at);
                return;
            }
        }
        // common ancestors
        let a1 = g.ancestors(&s1);
        let a2 = g.ancestors(&s2);
        let common: Vec<CommitId> = a1.intersection(&a2).cloned().collect();
        let expect_ca = g.heads_of(&common);
        match index.common_ancestors(&s1, &s2).block_on() {
            Ok(got) => {
                let got: BTreeSet<CommitId> = got.into_iter().collect();
                if got != expect_ca {
                    model.violate(
                        "C18",
                        "common_ancestors_mismatch",
                        "reposim:c18:common_ancestors".into(),
                        format!(
                            "{ctx}: common_ancestors({:?}, {:?}) = {:?}, graph says {:?}",
                            s1.iter().map(short).collect::<Vec<_>>(),
                            s2.iter().map(short).collect::<Vec<_>>(),
                            got.iter().map(short).collect::<Vec<_>>(),
                            expect_ca.iter().map(short).collect::<Vec<_>>()
                        ),
                        at,
                    );
                    return;
                }
            }
            Err(e) => {
                model.violate("C18", "index_error", "reposim:c18:index_error".into(), format!("{ctx}: common_ancestors: {e}"), at);
                return;
            }
        }
    }
    // change id -> visible commits
    let visible = g.ancestors(&heads);
    let mut by_change: BTreeMap<ChangeId, BTreeSet<CommitId>> = BTreeMap::new();
    for c in &visible {
        by_change.entry(g.change[c].clone()).or_default().insert(c.clone());
    }
    for (change, ids) in by_change.iter().take(12) {
        match repo.resolve_change_id(change).block_on() {
            Ok(Some(targets)) => {
                let got: BTreeSet<CommitId> = targets.visible_with_offsets().map(|(_, id)| id.clone()).collect();
                if got != *ids {
                    model.violate(
                        "C18",
                        "change_id_lookup_mismatch",
                        "reposim:c18:change_id_lookup".into(),
                        format!(
                            "{ctx}: change {} resolves to {:?}, graph says {:?}",
                            short(change),
                            got.iter().map(short).collect::<Vec<_>>(),
                            ids.iter().map(short).collect::<Vec<_>>()
                        ),
                        at,
                    );
                    return;
                }
            }
            Ok(None) => {
                model.violate(
                    "C18",
                    "change_id_lookup_mismatch",
                    "reposim:c18:change_id_lookup".into(),
                    format!("{ctx}: change {} of a visible commit does not resolve", short(change)),
                    at,
                );
                return;
            }
            Err(e) => {
                model.violate("C18", "index_error", "reposim:c18:index_error".into(), format!("{ctx}: resolve_change_id: {e}"), at);
                return;
            }
        }
    }
    model.probe("c18_checked_repo");
    if all.len() >= 20 {
        model.probe("c18_graph_20plus");
    }
}

/// C22: the changed-path index records exactly the paths that differ between a
/// commit and the merge of its parents.
fn check_changed_paths_c22(shared: &Shared, sim: &Sim, repo: &dyn Repo, ctx: &str) {
    use futures::TryStreamExt as _;
    let at = cur_seq(sim);
    let heads: Vec<CommitId> = repo.view().heads().iter().cloned().collect();
    let g = Graph::load(repo.store(), heads);
    let mut ids: Vec<CommitId> = g.parents.keys().cloned().collect();
    ids.sort();
    let mut indexed = 0u64;
    for id in ids.iter().take(50) {
        let Ok(commit) = repo.store().get_commit(id) else { continue };
        let got: Option<Vec<String>> = match repo.index().changed_paths_in_commit(id).block_on() {
            Ok(Some(it)) => Some(it.map(|p| p.as_internal_file_string().to_string()).collect()),
            Ok(None) => None,
            Err(e) => {
                shared.model.lock().unwrap().violate("C22", "index_error", "reposim:c22:index_error".into(), format!("{ctx}: changed_paths_in_commit: {e}"), at);
                return;
            }
        };
        let Some(got) = got else { continue };
        indexed += 1;
        // reference: tree diff against the merge of the parents' trees
        let parents: Vec<Commit> = commit.parent_ids().iter().filter_map(|p| repo.store().get_commit(p).ok()).collect();
        let parent_tree = if parents.is_empty() {
            repo.store().empty_merged_tree()
        } else {
            match jj_lib::rewrite::merge_commit_trees(repo, &parents).block_on() {
                Ok(t) => t,
                Err(_) => continue,
            }
        };
        let diff: Result<Vec<_>, _> = parent_tree
            .diff_stream(&commit.tree(), &jj_lib::matchers::EverythingMatcher)
            .map(|e| e.values.map(|_| e.path.as_internal_file_string().to_string()))
            .try_collect()
            .block_on();
        let Ok(mut want) = diff else { continue };
        want.sort();
        let mut got_sorted = got.clone();
        got_sorted.sort();
        if got_sorted.windows(2).any(|w| w[0] == w[1]) {
            shared.model.lock().unwrap().violate(
                "C22",
                "changed_path_listed_twice",
                "reposim:c22:changed_path_listed_twice".into(),
                format!("{ctx}: commit {}: index lists a path twice: {:?}", short(id), got),
                at,
            );
            return;
        }
        if parents.len() > 1 {
            shared.model.lock().unwrap().probe("c22_merge_commit_checked");
            if let Ok(noresolve) = jj_lib::rewrite::merge_commit_trees_no_resolve(repo, &parents).block_on() {
                let unresolved_before = noresolve.conflicts().count();
                let unresolved_after = parent_tree.conflicts().count();
                if unresolved_before > unresolved_after {
                    shared.model.lock().unwrap().probe("c22_merge_commit_parents_merge_resolved_by_content");
                }
            }
        }
        if got_sorted == want {
            continue;
        }
        let missing: Vec<&String> = want.iter().filter(|p| !got_sorted.contains(p)).collect();
        let extra: Vec<&String> = got_sorted.iter().filter(|p| !want.contains(p)).collect();
        if std::env::var_os("JJSIM_DEBUG_C22").is_some() {
            let noresolve = jj_lib::rewrite::merge_commit_trees_no_resolve(repo, &parents).block_on().unwrap();
            for p in missing.iter().chain(extra.iter()) {
                let rp = RepoPathBuf::from_internal_string((*p).clone()).unwrap();
                eprintln!(
                    "C22DEBUG commit {} parents {:?} path {p}\n  parents-merged-resolved: {:?}\n  parents-merged-noresolve: {:?}\n  commit: {:?}",
                    short(id),
                    parents.iter().map(|c| short(c.id())).collect::<Vec<_>>(),
                    parent_tree.path_value(&rp).block_on(),
                    noresolve.path_value(&rp).block_on(),
                    commit.tree().path_value(&rp).block_on()
                );
            }
        }
        // Known finding (known_findings.jsonl): a merge commit that merely
        // inherits an unresolvable conflict from the automatic merge of its
        // parents is recorded as changing that path, because the index (like
        // the un-indexed files() predicate) compares the commit's simplified
        // conflict with the *unsimplified* terms of the parents' merge. It is
        // recognised narrowly: only extra paths, only on merge commits, the
        // path's value in the resolved merge of the parents equals the
        // commit's value and is a conflict.
        let mut inherited_conflict_only = missing.is_empty() && parents.len() > 1;
        if inherited_conflict_only {
            for p in &extra {
                let rp = RepoPathBuf::from_internal_string((*p).clone()).unwrap();
                let before = parent_tree.path_value(&rp).block_on();
                let after = commit.tree().path_value(&rp).block_on();
                match (before, after) {
                    (Ok(b), Ok(a)) if b == a && !a.is_resolved() => {}
                    _ => inherited_conflict_only = false,
                }
            }
        }
        if inherited_conflict_only {
            shared.model.lock().unwrap().violate(
                "C22",
                "inherited_conflict_recorded_as_changed",
                "reposim:c22:merge_commit_inherited_conflict_recorded_as_changed".into(),
                format!("{ctx}: merge commit {}: index says {:?}, diff against the parents' merged tree says {:?}; the extra paths hold the same unresolved conflict in both", short(id), got, want),
                at,
            );
            continue;
        }
        shared.model.lock().unwrap().violate(
            "C22",
            "changed_paths_differ_from_tree_diff",
            "reposim:c22:changed_paths_differ_from_tree_diff".into(),
            format!("{ctx}: commit {} ({} parents): index says {:?}, diff against the parents' merged tree says {:?}", short(id), parents.len(), got, want),
            at,
        );
        return;
    }
    let mut model = shared.model.lock().unwrap();
    if indexed > 0 {
        model.probe("c22_repo_checked");
    }
    if indexed as usize >= ids.len().min(50) && !ids.is_empty() {
        model.probe("c22_all_visible_commits_indexed");
    }
}

fn copy_dir_all(src: &Path, dst: &Path) -> std::io::Result<()> {
    std::fs::create_dir_all(dst)?;
    for e in std::fs::read_dir(src)? {
        let e = e?;
        let to = dst.join(e.file_name());
        if e.file_type()?.is_dir() {
            copy_dir_all(&e.path(), &to)?;
        } else {
            std::fs::copy(e.path(), &to)?;
        }
    }
    Ok(())
}

fn eval_files_revset(repo: &dyn Repo, expr: jj_lib::fileset::FilesetExpression) -> Result<BTreeSet<CommitId>, String> {
    use jj_lib::revset::ResolvedRevsetExpression;
    use jj_lib::revset::RevsetFilterPredicate;
    let e: Arc<ResolvedRevsetExpression> = RevsetExpression::filter(RevsetFilterPredicate::File(expr));
    let revset = e.evaluate(repo).map_err(|e| err_chain(&e))?;
    let mut out = BTreeSet::new();
    let mut stream = revset.stream();
    while let Some(r) = stream.next().block_on() {
        out.insert(r.map_err(|e| err_chain(&e))?);
    }
    Ok(out)
}

/// C22, the statement's consequence: file-filtered queries return the same
/// commits with and without the changed-path index. The "without" side is a
/// copy of the repository whose index directory was emptied, so the index is
/// rebuilt from the backend with no changed-path segments.
fn check_files_queries_c22(shared: &Shared, repo: &Arc<ReadonlyRepo>) {
    use jj_lib::fileset::FilesetExpression;
    let copy_dir = shared.repo_dir.parent().unwrap().join("noidx");
    let _ = std::fs::remove_dir_all(&copy_dir);
    if copy_dir_all(&shared.repo_dir, &copy_dir).is_err() {
        return;
    }
    let idx = jj_lib::default_index::DefaultIndexStore::load(&copy_dir.join("index"));
    if idx.reinit().is_err() {
        return;
    }
    let settings = make_settings(6, 80_000_000, 80_000_000, 2001, "+00:00", "");
    let Ok(loader) = RepoLoader::init_from_file_system(&settings, &copy_dir, &jj_lib::default_backend_factories::default_backend_factories()) else {
        return;
    };
    let Ok(op) = loader.load_operation(repo.op_id()).block_on() else { return };
    let plain = match loader.load_at(&op).block_on() {
        Ok(r) => r,
        Err(e) => {
            shared.model.lock().unwrap().violate("C18", "rebuild_failed", "reposim:c18:rebuild_failed".into(), format!("rebuilding the index of a copy from scratch failed: {}", err_chain(&e)), 0);
            return;
        }
    };
    // the copy must really be un-indexed, the original indexed for some commit
    let some_head = repo.view().heads().iter().next().cloned();
    if let Some(h) = &some_head
        && matches!(plain.index().changed_paths_in_commit(h).block_on(), Ok(Some(_)))
    {
        shared.model.lock().unwrap().probe("c22_copy_unexpectedly_indexed");
        return;
    }
    let mut exprs: Vec<(String, FilesetExpression)> = vec![("all()".to_string(), FilesetExpression::all())];
    for p in TREE_PATHS.iter().chain(MULTILINE_PATHS.iter()) {
        let rp = RepoPathBuf::from_internal_string(*p).unwrap();
        exprs.push((format!("file:{p}"), FilesetExpression::file_path(rp)));
    }
    for p in ["d", "d/e"] {
        let rp = RepoPathBuf::from_internal_string(p).unwrap();
        exprs.push((format!("prefix:{p}"), FilesetExpression::prefix_path(rp)));
    }
    for (name, expr) in exprs {
        let with = eval_files_revset(repo.as_ref(), expr.clone());
        let without = eval_files_revset(plain.as_ref(), expr);
        match (with, without) {
            (Ok(a), Ok(b)) => {
                if a != b {
                    let only_with: Vec<String> = a.difference(&b).map(short).collect();
                    let only_without: Vec<String> = b.difference(&a).map(short).collect();
                    shared.model.lock().unwrap().violate(
                        "C22",
                        "files_query_differs_with_index",
                        "reposim:c22:files_query_differs_with_index".into(),
                        format!("files({name}) returns different commits with and without the changed-path index: only with the index {only_with:?}, only without {only_without:?}"),
                        0,
                    );
                    return;
                }
                if !a.is_empty() {
                    shared.model.lock().unwrap().probe("c22_files_query_nonempty_compared");
                }
            }
            (Err(e), _) | (_, Err(e)) => {
                shared.model.lock().unwrap().violate("C22", "files_query_error", "reposim:c22:files_query_error".into(), format!("files({name}) failed: {e}"), 0);
                return;
            }
        }
    }
    shared.model.lock().unwrap().probe("c22_files_queries_compared");
}

/// C17 / C16: what other processes wrote reads back identically through this
/// process's fresh stores.
fn check_roundtrip(shared: &Shared, sim: &Sim, loader: &RepoLoader, repo: &dyn Repo, ctx: &str) {
    let at = cur_seq(sim);
    let (commits, ops, views) = {
        let model = shared.model.lock().unwrap();
        (
            model.written_commits.clone(),
            model.written_ops.clone(),
            model.written_views.clone(),
        )
    };
    let store = loader.store();
    let index = repo.index();
    for (id, expected) in commits.iter().rev().take(25) {
        // Only commits this repo knows about are guaranteed to be readable.
        if !index.has_id(id).block_on().unwrap_or(false) {
            continue;
        }
        match store.get_commit(id) {
            Ok(c) => {
                if c.store_commit().as_ref() != expected {
                    let field = diff_commit(c.store_commit(), expected);
                    let git = shared.cfg.git;
                    shared.model.lock().unwrap().violate(
                        "C17",
                        "commit_roundtrip",
                        format!(
                            "reposim:commit_roundtrip:{}.{field}",
                            if git { "git_backend" } else { "simple_backend" }
                        ),
                        format!("{ctx}: commit {} read back differs from what write_commit returned in field {field}", short(id)),
                        at,
                    );
                } else {
                    shared.model.lock().unwrap().probe("c17_commit_reread");
                }
            }
            Err(e) => {
                shared.model.lock().unwrap().violate(
                    "C17",
                    "commit_unreadable",
                    "reposim:c17:commit_unreadable".into(),
                    format!("{ctx}: indexed commit {} cannot be read: {e}", short(id)),
                    at,
                );
            }
        }
    }
    // files, symlinks and trees written by anybody read back byte-identical
    // through this process's fresh store (objects are written before the
    // commit that references them, so everything recorded is on disk unless
    // its writer was stopped by an injected I/O error - then the read may
    // fail, but must never return different bytes)
    let objects: Vec<WrittenObject> = {
        let w = WRITTEN_OBJECTS.lock().unwrap();
        w.iter().rev().take(12).cloned().collect()
    };
    for o in objects {
        match o {
            WrittenObject::File(path, id, want) => {
                if let Ok(mut reader) = store.read_file(&path, &id).block_on() {
                    let mut got = vec![];
                    if tokio_read_all(&mut reader, &mut got).is_ok() {
                        if got != want {
                            shared.model.lock().unwrap().violate(
                                "C17",
                                "file_roundtrip",
                                "reposim:c17:file_roundtrip".into(),
                                format!("{ctx}: file {} ({}) reads back {} bytes, {} were written and differ", path.as_internal_file_string(), short(&id), got.len(), want.len()),
                                at,
                            );
                        } else {
                            shared.model.lock().unwrap().probe("c17_file_reread");
                        }
                    }
                }
            }
            WrittenObject::Symlink(path, id, want) => {
                if let Ok(got) = store.read_symlink(&path, &id).block_on() {
                    if got != want {
                        shared.model.lock().unwrap().violate(
                            "C17",
                            "symlink_roundtrip",
                            "reposim:c17:symlink_roundtrip".into(),
                            format!("{ctx}: symlink {} reads back {got:?}, written {want:?}", path.as_internal_file_string()),
                            at,
                        );
                    } else {
                        shared.model.lock().unwrap().probe("c17_symlink_reread");
                    }
                }
            }
            WrittenObject::Tree(id, want) => {
                if let Ok(t) = store.get_tree(RepoPathBuf::root(), &id).block_on() {
                    let got: Vec<(String, jj_lib::backend::TreeValue)> = t.entries_non_recursive().map(|e| (e.name().as_internal_str().to_string(), e.value().clone())).collect();
                    if got != want {
                        shared.model.lock().unwrap().violate(
                            "C17",
                            "tree_roundtrip",
                            "reposim:c17:tree_roundtrip".into(),
                            format!("{ctx}: root tree {} reads back with entries {:?}, written {:?}", short(&id), got.iter().map(|(n, _)| n).collect::<Vec<_>>(), want.iter().map(|(n, _)| n).collect::<Vec<_>>()),
                            at,
                        );
                    } else {
                        shared.model.lock().unwrap().probe("c17_tree_reread");
                    }
                }
            }
        }
    }
    let op_store = loader.op_store();
    let seen: BTreeSet<String> = shared.model.lock().unwrap().seen_heads.clone();
    for (id, expected) in ops.iter().rev().take(10) {
        if !seen.contains(&id.hex()) {
            // Unpublished operations may legitimately be missing only if the
            // writer died before persisting; skip them.
            continue;
        }
        match op_store.read_operation(id).block_on() {
            Ok(got) => {
                if got != *expected {
                    shared.model.lock().unwrap().violate(
                        "C16",
                        "operation_roundtrip",
                        "reposim:c16:operation_roundtrip".into(),
                        format!("{ctx}: operation {} read back differs from the value written", short(id)),
                        at,
                    );
                } else {
                    shared.model.lock().unwrap().probe("c16_operation_reread");
                }
                match op_store.read_view(&got.view_id).block_on() {
                    Ok(v) => {
                        if let Some((_, ev)) = views.iter().find(|(vid, _)| *vid == got.view_id)
                            && v != *ev
                        {
                            shared.model.lock().unwrap().violate(
                                "C16",
                                "view_roundtrip",
                                "reposim:c16:view_roundtrip".into(),
                                format!("{ctx}: view {} read back differs from the value written", short(&got.view_id)),
                                at,
                            );
                        } else {
                            shared.model.lock().unwrap().probe("c16_view_reread");
                        }
                    }
                    Err(e) => {
                        shared.model.lock().unwrap().violate(
                            "C16",
                            "view_unreadable",
                            "reposim:c16:view_unreadable".into(),
                            format!("{ctx}: view of published operation {} cannot be read: {e}", short(id)),
                            at,
                        );
                    }
                }
            }
            Err(e) => {
                shared.model.lock().unwrap().violate(
                    "C16",
                    "operation_unreadable",
                    "reposim:c16:operation_unreadable".into(),
                    format!("{ctx}: published operation {} cannot be read: {e}", short(id)),
                    at,
                );
            }
        }
    }
    // values written straight through the OpStore interface
    let (raw_views, raw_ops) = {
        let model = shared.model.lock().unwrap();
        (model.raw_views.clone(), model.raw_ops.clone())
    };
    // A ref map entry with an absent target denotes the same thing as no entry
    // (that is how `View` exposes the maps, and its setters never store one);
    // the store is free to drop such entries, so both sides are compared with
    // them removed. An entry that comes back as anything else is a difference.
    let normalise = |v: &op_store::View| -> op_store::View {
        let mut v = v.clone();
        v.local_bookmarks.retain(|_, t| t.is_present());
        v.local_tags.retain(|_, t| t.is_present());
        v.git_refs.retain(|_, t| t.is_present());
        v.git_heads.retain(|_, t| t.is_present());
        v
    };
    for (id, want) in raw_views.iter().rev().take(4) {
        let want = &normalise(want);
        match op_store.read_view(id).block_on().map(|v| normalise(&v)) {
            Ok(got) if got == *want => shared.model.lock().unwrap().probe("c16_raw_view_reread"),
            Ok(got) => {
                let field = if got.git_refs != want.git_refs {
                    "git_refs"
                } else if got.remote_views != want.remote_views {
                    "remote_views"
                } else if got.local_bookmarks != want.local_bookmarks {
                    "local_bookmarks"
                } else if got.local_tags != want.local_tags {
                    "local_tags"
                } else if got.git_heads != want.git_heads {
                    "git_heads"
                } else if got.wc_commit_ids != want.wc_commit_ids {
                    "wc_commit_ids"
                } else {
                    "head_ids"
                };
                shared.model.lock().unwrap().violate(
                    "C16",
                    "raw_view_roundtrip",
                    format!("reposim:c16:raw_view_roundtrip:{field}"),
                    format!("{ctx}: view {} written through the OpStore reads back with a different {field}", short(id)),
                    at,
                );
            }
            Err(e) => {
                shared.model.lock().unwrap().violate("C16", "raw_view_unreadable", "reposim:c16:raw_view_unreadable".into(), format!("{ctx}: view {} written through the OpStore cannot be read: {e}", short(id)), at);
            }
        }
    }
    for (id, want) in raw_ops.iter().rev().take(4) {
        match op_store.read_operation(id).block_on() {
            Ok(got) if got == *want => shared.model.lock().unwrap().probe("c16_raw_operation_reread"),
            Ok(_) => {
                shared.model.lock().unwrap().violate("C16", "raw_operation_roundtrip", "reposim:c16:raw_operation_roundtrip".into(), format!("{ctx}: operation {} written through the OpStore reads back as a different value", short(id)), at);
            }
            Err(e) => {
                shared.model.lock().unwrap().violate("C16", "raw_operation_unreadable", "reposim:c16:raw_operation_unreadable".into(), format!("{ctx}: operation {} written through the OpStore cannot be read: {e}", short(id)), at);
            }
        }
    }
}

fn diff_commit(a: &backend::Commit, b: &backend::Commit) -> &'static str {
    if a.parents != b.parents {
        "parents"
    } else if a.predecessors != b.predecessors {
        "predecessors"
    } else if a.root_tree != b.root_tree {
        "root_tree"
    } else if a.change_id != b.change_id {
        "change_id"
    } else if a.description != b.description {
        "description"
    } else if a.author.name != b.author.name || a.author.email != b.author.email {
        "author.identity"
    } else if a.author.timestamp.tz_offset != b.author.timestamp.tz_offset {
        "author.tz_offset"
    } else if a.author.timestamp.timestamp != b.author.timestamp.timestamp {
        if a.author.timestamp.timestamp.0.div_euclid(1000) == b.author.timestamp.timestamp.0.div_euclid(1000) {
            "author.timestamp.subsecond"
        } else {
            "author.timestamp"
        }
    } else if a.committer.name != b.committer.name || a.committer.email != b.committer.email {
        "committer.identity"
    } else if a.committer.timestamp != b.committer.timestamp {
        "committer.timestamp"
    } else if a.secure_sig != b.secure_sig {
        "secure_sig"
    } else {
        "other"
    }
}

// ---------------------------------------------------------------------------
// operation DAG helpers (harness side, direct reads)

fn op_parents_cached(shared: &Shared, loader: &RepoLoader, hex: &str) -> Option<Vec<String>> {
    if hex == shared.root_op_hex {
        return Some(vec![]);
    }
    if let Some(p) = shared.model.lock().unwrap().op_parents.get(hex) {
        return Some(p.clone());
    }
    let id = OperationId::try_from_hex(hex)?;
    let op = loader.op_store().read_operation(&id).block_on().ok()?;
    let ps: Vec<String> = op.parents.iter().map(|p| p.hex()).collect();
    shared
        .model
        .lock()
        .unwrap()
        .op_parents
        .insert(hex.to_string(), ps.clone());
    Some(ps)
}

fn op_ancestors(shared: &Shared, loader: &RepoLoader, heads: &[String]) -> Result<BTreeSet<String>, String> {
    let mut seen = BTreeSet::new();
    let mut stack: Vec<String> = heads.to_vec();
    while let Some(h) = stack.pop() {
        if !seen.insert(h.clone()) {
            continue;
        }
        match op_parents_cached(shared, loader, &h) {
            Some(ps) => stack.extend(ps),
            None => return Err(h),
        }
    }
    Ok(seen)
}

fn list_op_heads(repo_dir: &Path) -> Vec<String> {
    let mut v: Vec<String> = std::fs::read_dir(repo_dir.join("op_heads").join("heads"))
        .map(|rd| {
            rd.filter_map(|e| e.ok())
                .map(|e| e.file_name().to_string_lossy().into_owned())
                .filter(|n| n.len() == 128 && n.bytes().all(|b| b.is_ascii_hexdigit()))
                .collect()
        })
        .unwrap_or_default();
    v.sort();
    v
}

// ---------------------------------------------------------------------------
// the simulated command

enum CmdError {
    Load(String),
    Commit(String),
}

fn err_chain(e: &dyn std::error::Error) -> String {
    let mut msg = e.to_string();
    let mut src = e.source();
    while let Some(s) = src {
        msg.push_str(": ");
        msg.push_str(&s.to_string());
        src = s.source();
    }
    msg
}

fn visible_commits(repo: &dyn Repo) -> Vec<Commit> {
    // Deterministic order: by commit id.
    let heads: Vec<CommitId> = repo.view().heads().iter().cloned().collect();
    let g = Graph::load(repo.store(), heads);
    let mut ids: Vec<CommitId> = g.parents.keys().cloned().collect();
    ids.sort();
    ids.into_iter()
        .filter_map(|id| repo.store().get_commit(&id).ok())
        .collect()
}

fn write_tree(mut_repo: &mut MutableRepo, base: &MergedTree, path: &str, content: &str) -> Result<MergedTree, String> {
    use jj_lib::backend::TreeValue;
    use jj_lib::merge::Merge;
    use jj_lib::merged_tree_builder::MergedTreeBuilder;
    let store = mut_repo.store().clone();
    let rp = RepoPathBuf::from_internal_string(path).unwrap();
    let id = store_write_file(&store, &rp, content.as_bytes())?;
    let mut b = MergedTreeBuilder::new(base.clone());
    b.set_or_remove(
        rp,
        Merge::normal(TreeValue::File {
            id,
            executable: false,
            copy_id: jj_lib::backend::CopyId::placeholder(),
        }),
    );
    let tree = b.write_tree().block_on().map_err(|e| err_chain(&e))?;
    record_root_tree(&store, &tree);
    Ok(tree)
}

const TREE_PATHS: [&str; 7] = ["f0", "f1", "f2", "f3", "d/a", "d/b", "d/e/x"];
/// files with five lines that are edited one line at a time
const MULTILINE_PATHS: [&str; 2] = ["m0", "d/m1"];

/// 1-3 edits of a small path universe (nested directories, deletions, and a
/// fixed content that several sides may write so that same-change merges and
/// "edit that changes nothing" both occur).
fn edit_tree(mut_repo: &mut MutableRepo, base: &MergedTree, d: &Draw<'_>, tag: &str) -> Result<MergedTree, String> {
    use jj_lib::backend::TreeValue;
    use jj_lib::merge::Merge;
    use jj_lib::merged_tree_builder::MergedTreeBuilder;
    let store = mut_repo.store().clone();
    let n = 1 + d.weighted(&[6, 2, 1]);
    let mut b = MergedTreeBuilder::new(base.clone());
    for k in 0..n {
        let mode = d.weighted(&[5, 2, 2, 4, 1]);
        let path = if mode == 3 {
            MULTILINE_PATHS[d.n(MULTILINE_PATHS.len())]
        } else {
            TREE_PATHS[d.n(TREE_PATHS.len())]
        };
        let rp = RepoPathBuf::from_internal_string(path).unwrap();
        match mode {
            1 => {
                b.set_or_remove(rp, Merge::absent());
            }
            4 => {
                let target = format!("../target of {tag}.{k} \u{e9}");
                let id = store.write_symlink(&rp, &target).block_on().map_err(|e| err_chain(&e))?;
                record_written(WrittenObject::Symlink(rp.clone(), id.clone(), target));
                b.set_or_remove(rp, Merge::normal(TreeValue::Symlink(id)));
            }
            3 => {
                // change one line of a multi-line file (created on first use), so
                // that edits of different lines by concurrent sides merge at the
                // content level and edits of the same line conflict
                let line = d.n(5);
                let mut lines: Vec<String> = (1..=5).map(|i| format!("line {i}")).collect();
                if let Ok(cur) = base.path_value(&rp).block_on()
                    && let Some(Some(TreeValue::File { id, .. })) = cur.as_resolved()
                    && let Ok(mut reader) = store.read_file(&rp, id).block_on()
                {
                    let mut buf = vec![];
                    if tokio_read_all(&mut reader, &mut buf).is_ok() {
                        let text = String::from_utf8_lossy(&buf).into_owned();
                        let got: Vec<String> = text.lines().map(str::to_string).collect();
                        if got.len() == 5 {
                            lines = got;
                        }
                    }
                }
                lines[line] = format!("{tag}.{k}");
                let content = lines.join("\n") + "\n";
                let id = store_write_file(&store, &rp, content.as_bytes())?;
                b.set_or_remove(
                    rp,
                    Merge::normal(TreeValue::File {
                        id,
                        executable: false,
                        copy_id: jj_lib::backend::CopyId::placeholder(),
                    }),
                );
            }
            w => {
                let content = if w == 2 { "same\n".to_string() } else { format!("{tag}.{k}\n") };
                let id = store_write_file(&store, &rp, content.as_bytes())?;
                b.set_or_remove(
                    rp,
                    Merge::normal(TreeValue::File {
                        id,
                        executable: w == 2 && k == 1,
                        copy_id: jj_lib::backend::CopyId::placeholder(),
                    }),
                );
            }
        }
    }
    let tree = b.write_tree().block_on().map_err(|e| err_chain(&e))?;
    record_root_tree(&store, &tree);
    Ok(tree)
}

/// Replaces one line of a five-line file (created when absent or not a plain file).
fn set_line(mut_repo: &mut MutableRepo, base: &MergedTree, path: &str, line: usize, text: &str) -> Result<MergedTree, String> {
    use jj_lib::backend::TreeValue;
    let store = mut_repo.store().clone();
    let rp = RepoPathBuf::from_internal_string(path).unwrap();
    let mut lines: Vec<String> = (1..=5).map(|i| format!("line {i}")).collect();
    if let Ok(cur) = base.path_value(&rp).block_on()
        && let Some(Some(TreeValue::File { id, .. })) = cur.as_resolved()
        && let Ok(mut reader) = store.read_file(&rp, id).block_on()
    {
        let mut buf = vec![];
        if tokio_read_all(&mut reader, &mut buf).is_ok() {
            let got: Vec<String> = String::from_utf8_lossy(&buf).lines().map(str::to_string).collect();
            if got.len() == 5 {
                lines = got;
            }
        }
    }
    lines[line] = text.to_string();
    write_tree(mut_repo, base, path, &(lines.join("\n") + "\n"))
}

fn tokio_read_all(reader: &mut (impl futures::AsyncRead + Unpin), buf: &mut Vec<u8>) -> std::io::Result<usize> {
    use futures::AsyncReadExt as _;
    reader.read_to_end(buf).block_on()
}

fn target_val(repo: &dyn Repo, t: &RefTarget) -> RefVal {
    if t.is_absent() {
        return RefVal::from([None]);
    }
    t.as_merge()
        .adds()
        .map(|id| id.as_ref().and_then(|id| repo.store().get_commit(id).ok().map(|c| c.change_id().clone())))
        .collect()
}

fn wc_val(repo: &dyn Repo, id: Option<&CommitId>) -> RefVal {
    match id {
        None => RefVal::from([None]),
        Some(id) => RefVal::from([repo.store().get_commit(id).ok().map(|c| c.change_id().clone())]),
    }
}

/// Every bookmark, tag and workspace whose value (by change id) differs
/// between the two views.
fn diff_refs(before: &dyn Repo, after: &dyn Repo) -> Vec<RefWrite> {
    let mut out = vec![];
    let mut names: BTreeSet<RefNameBuf> = BTreeSet::new();
    names.extend(before.view().local_bookmarks().map(|(n, _)| n.to_owned()));
    names.extend(after.view().local_bookmarks().map(|(n, _)| n.to_owned()));
    for n in &names {
        let b = target_val(before, before.view().get_local_bookmark(n));
        let a = target_val(after, after.view().get_local_bookmark(n));
        if before.view().get_local_bookmark(n) != after.view().get_local_bookmark(n) {
            let ids = before.view().get_local_bookmark(n).added_ids().chain(after.view().get_local_bookmark(n).added_ids()).cloned().collect();
            out.push(RefWrite { kind: RefKind::Bookmark, name: n.as_str().to_string(), before: b, after: a, ids });
        }
    }
    let mut names: BTreeSet<RefNameBuf> = BTreeSet::new();
    names.extend(before.view().local_tags().map(|(n, _)| n.to_owned()));
    names.extend(after.view().local_tags().map(|(n, _)| n.to_owned()));
    for n in &names {
        let b = target_val(before, before.view().get_local_tag(n));
        let a = target_val(after, after.view().get_local_tag(n));
        if before.view().get_local_tag(n) != after.view().get_local_tag(n) {
            let ids = before.view().get_local_tag(n).added_ids().chain(after.view().get_local_tag(n).added_ids()).cloned().collect();
            out.push(RefWrite { kind: RefKind::Tag, name: n.as_str().to_string(), before: b, after: a, ids });
        }
    }
    let mut names: BTreeSet<WorkspaceNameBuf> = BTreeSet::new();
    names.extend(before.view().wc_commit_ids().keys().cloned());
    names.extend(after.view().wc_commit_ids().keys().cloned());
    for n in &names {
        let b = wc_val(before, before.view().get_wc_commit_id(n));
        let a = wc_val(after, after.view().get_wc_commit_id(n));
        if before.view().get_wc_commit_id(n) != after.view().get_wc_commit_id(n) {
            let ids = before.view().get_wc_commit_id(n).into_iter().chain(after.view().get_wc_commit_id(n)).cloned().collect();
            out.push(RefWrite { kind: RefKind::Wc, name: n.as_str().to_string(), before: b, after: a, ids });
        }
    }
    out
}

struct Draw<'a> {
    sim: &'a Sim,
}
impl Draw<'_> {
    fn n(&self, n: usize) -> usize {
        self.sim.choose(n)
    }
    fn chance(&self, a: usize, b: usize) -> bool {
        self.sim.with_chooser(|c| c.chance(a, b))
    }
    fn weighted(&self, w: &[usize]) -> usize {
        self.sim.with_chooser(|c| c.weighted(w))
    }
}

impl RepoSim {
    #[allow(clippy::too_many_lines)]
    fn body(shared: &Arc<Shared>, sim: &Arc<Sim>, slot: usize, cmd: usize) {
        let pid = sched::current_pid().unwrap();
        let d = Draw { sim };
        let ioerrs_before = sim.inner.lock().unwrap().ioerrs;
        // --- process image: settings with own clock and rng
        let tick = cur_seq(sim) as i64;
        let skew = shared.cfg.skew_ms[slot % shared.cfg.skew_ms.len()];
        let op_ms = 3_600_000 + tick * 1000 + skew;
        let commit_ms = op_ms + d.n(1000) as i64;
        let year = [2001, 2001, 1965, 2040][d.n(4)];
        let tz = ["+00:00", "+07:00", "-05:30", "+13:45"][d.n(4)];
        let seed = 1000 + (slot as u64) * 1000 + (cmd as u64) * 10 + pid as u64 * 100_000;
        let extra = if shared.cfg.no_change_id_header { "git.write-change-id-header = false" } else { "" };
        let settings = make_settings(seed, op_ms, commit_ms, year, tz, extra);
        let result = Self::command(shared, sim, &d, &settings, pid, cmd);
        let ioerr_here = sim.inner.lock().unwrap().ioerrs > ioerrs_before;
        if ioerr_here {
            shared.model.lock().unwrap().ioerr_cmds.insert((pid, cmd));
        }
        if let Err(e) = result {
            let at = cur_seq(sim);
            let (what, msg) = match &e {
                CmdError::Load(m) => ("load", m.clone()),
                CmdError::Commit(m) => ("commit", m.clone()),
            };
            sim.note("note:cmd_error", format!("{what}: {msg}"));
            if !ioerr_here {
                // Known finding (known_findings.jsonl): a reconcile of criss-crossed
                // operations rebases a commit twice within one tick of the
                // process's commit clock (first in the unpublished merge of the
                // common ancestors, whose index is merged into the real merge) and
                // the second write is refused as "already exists".
                let (prop, inv) = if msg.contains("Newly-created commit") && msg.contains("already exists") {
                    ("C14", "reconcile_rewrites_commit_twice_in_one_clock_tick")
                } else if msg.contains("index") || msg.contains("Index") {
                    ("C18", "unexpected_index_error")
                } else if msg.contains("commit") && msg.contains("not found") {
                    ("C17", "unexpected_backend_error")
                } else {
                    ("C14", "unexpected_error")
                };
                shared.model.lock().unwrap().violate(
                    prop,
                    inv,
                    format!("reposim:{inv}:{what}"),
                    format!("simulated command failed without any injected I/O error: {what}: {msg}"),
                    at,
                );
            } else {
                shared.model.lock().unwrap().probe("cmd_failed_after_ioerr");
            }
        }
    }

    #[allow(clippy::too_many_lines)]
    fn command(
        shared: &Arc<Shared>,
        sim: &Arc<Sim>,
        d: &Draw<'_>,
        settings: &UserSettings,
        pid: usize,
        cmd: usize,
    ) -> Result<(), CmdError> {
        let loader = RepoLoader::init_from_file_system(settings, &shared.repo_dir, &jj_lib::default_backend_factories::default_backend_factories())
            .map_err(|e| CmdError::Load(err_chain(&e)))?;
        // 0 = writer, 1 = reader, 2 = reindex
        let kind = if shared.cfg.heads_focus {
            d.weighted(&[5, 3, 0])
        } else if shared.cfg.c22_focus {
            d.weighted(&[6, 1, 3])
        } else {
            d.weighted(&[7, 2, 1])
        };
        sim.note("note:cmd_start", ["writer", "reader", "reindex"][kind].to_string());
        // --- load (at head, or at an older published operation)
        // (index maintenance may also target an older operation, like
        // `jj debug reindex --at-op`: that is how a side branch of the
        // operation log gets a partially built changed-path index)
        let older = shared.cfg.older_op_chance > 0 && (kind == 0 || (kind == 2 && shared.cfg.c22_focus)) && d.chance(1, shared.cfg.older_op_chance);
        let repo = if older {
            let candidates: Vec<String> = {
                let model = shared.model.lock().unwrap();
                if shared.cfg.c22_focus {
                    // the most recently published transactions: side branches that
                    // are still un-reconciled or were reconciled a moment ago
                    let recent: Vec<String> = model
                        .txs
                        .iter()
                        .rev()
                        .filter_map(|t| t.op_id.as_ref().map(|id| id.hex()))
                        .filter(|h| model.seen_heads.contains(h))
                        .take(2)
                        .collect();
                    if recent.is_empty() { model.seen_heads.iter().cloned().collect() } else { recent }
                } else {
                    model.seen_heads.iter().cloned().collect()
                }
            };
            if candidates.is_empty() {
                loader.load_at_head().block_on().map_err(|e| CmdError::Load(err_chain(&e)))?
            } else {
                let hex = &candidates[d.n(candidates.len())];
                let id = OperationId::try_from_hex(hex).unwrap();
                let op = loader
                    .load_operation(&id)
                    .block_on()
                    .map_err(|e| CmdError::Load(err_chain(&e)))?;
                shared.model.lock().unwrap().probe("load_at_older_operation");
                sim.note("note:load_at", short(&id));
                loader.load_at(&op).block_on().map_err(|e| CmdError::Load(err_chain(&e)))?
            }
        } else {
            loader.load_at_head().block_on().map_err(|e| CmdError::Load(err_chain(&e)))?
        };
        sim.note("note:loaded", format!("op {} heads {}", short(repo.op_id()), repo.view().heads().len()));
        Self::monitors(shared, sim, d, &loader, repo.as_ref(), "loaded");
        if kind == 1 {
            if !shared.cfg.heads_focus && d.chance(1, 3) {
                Self::raw_op_store_writes(shared, sim, d, &loader, repo.as_ref());
            }
            return Ok(());
        }
        if kind == 2 {
            // index maintenance on the loaded operation: a forced rebuild of the
            // commit index (which leaves it without changed paths), enabling or
            // extending the changed-path index with a drawn `max_commits` (0 =
            // enabled, nothing older indexed), or both. Done separately they
            // leave, on one branch of the operation log, commits written while
            // the changed-path index was off followed by indexed ones.
            if let Some(store) = repo
                .index_store()
                .downcast_ref::<jj_lib::default_index::DefaultIndexStore>()
            {
                let what = if shared.cfg.changed_paths { d.n(3) } else { 0 };
                if what != 1 {
                    match store.build_index_at_operation(repo.operation(), repo.store()).block_on() {
                        Ok(_) => shared.model.lock().unwrap().probe("index_rebuilt"),
                        Err(e) => return Err(CmdError::Load(format!("index rebuild: {}", err_chain(&e)))),
                    }
                }
                if what != 0 {
                    let max = if shared.cfg.c22_focus { [0u32, 1, 2, 1000, 1000, 1000][d.n(6)] } else { [1u32, 3, 10, 1000][d.n(4)] };
                    match store.build_changed_path_index_at_operation(repo.op_id(), repo.store(), max, |_| {}).block_on() {
                        Ok(_) => shared.model.lock().unwrap().probe("changed_path_index_rebuilt"),
                        Err(e) => return Err(CmdError::Load(format!("index changed-path rebuild: {}", err_chain(&e)))),
                    }
                }
                sim.note("note:reindex", ["commit index rebuilt (changed paths dropped)", "changed-path index enabled/extended", "commit index rebuilt, changed-path index built"][what].to_string());
                let repo2 = loader
                    .load_at(repo.operation())
                    .block_on()
                    .map_err(|e| CmdError::Load(err_chain(&e)))?;
                Self::monitors(shared, sim, d, &loader, repo2.as_ref(), "after_rebuild");
            }
            return Ok(());
        }
        // --- writer
        let mut tx = repo.start_transaction();
        let mut rec = TxRec {
            pid,
            cmd,
            parent_ops: vec![repo.op_id().clone()],
            ..TxRec::default()
        };
        let n_mut = if shared.cfg.heads_focus { 1 } else { 1 + d.weighted(&[3, 3, 2, 1]) };
        let uniq = format!("p{pid}c{cmd}");
        for m in 0..n_mut {
            // Commits already rewritten or abandoned by this transaction stay
            // in the view until descendants are rebased; using them again
            // (second rewrite of the same commit, new child of an abandoned
            // commit) would be API misuse that creates divergence by itself.
            let gone_here: HashSet<CommitId> = rec
                .rewritten
                .iter()
                .map(|(o, _, _)| o.clone())
                .chain(rec.abandoned.iter().map(|(o, _)| o.clone()))
                .chain(rec.divergent_old.iter().cloned())
                .chain(rec.divergent_new.iter().cloned())
                .collect();
            let vis: Vec<Commit> = visible_commits(tx.repo())
                .into_iter()
                .filter(|c| !gone_here.contains(c.id()))
                .collect();
            let root_id = tx.repo().store().root_commit_id().clone();
            let non_root: Vec<&Commit> = vis.iter().filter(|c| *c.id() != root_id).collect();
            // 0 new commit, 1 rewrite(describe), 2 abandon, 3 bookmark, 4 tag, 5 wc, 6 divergent rewrite,
            // 7 squash (two predecessors), 8 restore an older operation's view, 9 split, 10 diamond, 11 view fuzz
            let mkind = if shared.cfg.heads_focus {
                0
            } else {
                d.weighted(&[5, 3, 2, 4, 1, 2, 1, 1, usize::from(shared.cfg.restores && m == 0), 1, 1, 1])
            };
            match mkind {
                8 => {
                    // only operations the loaded one descends from (what `jj op restore` can name)
                    let anc = sched::without_hooks(|| op_ancestors(shared, &loader, &[repo.op_id().hex()])).unwrap_or_default();
                    let candidates: Vec<String> = shared
                        .model
                        .lock()
                        .unwrap()
                        .seen_heads
                        .iter()
                        .filter(|h| anc.contains(*h) && **h != repo.op_id().hex())
                        .cloned()
                        .collect();
                    if candidates.is_empty() {
                        continue;
                    }
                    let hex = &candidates[d.n(candidates.len())];
                    let id = OperationId::try_from_hex(hex).unwrap();
                    let op = loader.load_operation(&id).block_on().map_err(|e| CmdError::Load(err_chain(&e)))?;
                    let view = op.view().block_on().map_err(|e| CmdError::Load(err_chain(&e)))?;
                    tx.repo_mut().set_view(view.store_view().clone());
                    sim.note("note:mut", format!("restore view of op {}", short(&id)));
                    rec.restore = true;
                    break;
                }
                11 if !vis.is_empty() => {
                    // view fuzz (C16): remote bookmarks / remote tags in both
                    // tracking states with normal, absent and conflicted
                    // targets, git refs, git head
                    use jj_lib::op_store::RemoteRef;
                    use jj_lib::op_store::RemoteRefState;
                    use jj_lib::ref_name::RemoteRefSymbol;
                    let pick_target = |d: &Draw<'_>| -> RefTarget {
                        match d.weighted(&[5, 1, 2]) {
                            1 => RefTarget::absent(),
                            2 => {
                                let a = vis[d.n(vis.len())].id().clone();
                                let b = vis[d.n(vis.len())].id().clone();
                                let c = vis[d.n(vis.len())].id().clone();
                                if d.chance(1, 2) {
                                    RefTarget::from_legacy_form([a], [b, c])
                                } else {
                                    // absent side / absent base
                                    RefTarget::from_merge(jj_lib::merge::Merge::from_vec(vec![Some(a), None, Some(b)]))
                                }
                            }
                            _ => RefTarget::normal(vis[d.n(vis.len())].id().clone()),
                        }
                    };
                    let name: RefNameBuf = format!("b{}", d.n(shared.cfg.n_bookmarks)).as_str().into();
                    let remote: jj_lib::ref_name::RemoteNameBuf = ["origin", "up", "git"][d.n(3)].into();
                    match d.n(4) {
                        0 => {
                            let target = pick_target(d);
                            let state = if d.chance(1, 2) { RemoteRefState::Tracked } else { RemoteRefState::New };
                            tx.repo_mut().set_remote_bookmark(RemoteRefSymbol { name: &name, remote: &remote }, RemoteRef { target, state });
                        }
                        1 => {
                            let target = pick_target(d);
                            let state = if d.chance(1, 2) { RemoteRefState::Tracked } else { RemoteRefState::New };
                            let tname: RefNameBuf = format!("t{}", d.n(shared.cfg.n_bookmarks)).as_str().into();
                            tx.repo_mut().set_remote_tag(RemoteRefSymbol { name: &tname, remote: &remote }, RemoteRef { target, state });
                        }
                        2 => {
                            let target = pick_target(d);
                            let gname: jj_lib::ref_name::GitRefNameBuf = format!("refs/heads/g{}", d.n(3)).as_str().into();
                            tx.repo_mut().set_git_ref_target(&gname, target);
                        }
                        _ => {
                            let target = pick_target(d);
                            let wsn: WorkspaceNameBuf = format!("ws{}", d.n(2)).as_str().into();
                            tx.repo_mut().set_git_head_target(&wsn, target);
                        }
                    }
                    sim.note("note:mut", "view fuzz (remote ref / git ref / git head)".to_string());
                    shared.model.lock().unwrap().probe("view_fuzz_mutation");
                }
                10 if !vis.is_empty() => {
                    // diamond: two siblings edit one line each of the same
                    // multi-line file, and a merge commit takes the automatic
                    // merge of both (content-level merge when the lines differ,
                    // an inherited conflict when they are the same line)
                    let base = vis[d.n(vis.len())].clone();
                    let path = MULTILINE_PATHS[d.n(MULTILINE_PATHS.len())];
                    let (l1, l2) = (d.n(5), d.n(5));
                    let mut sides: Vec<Commit> = vec![];
                    for (k, line) in [l1, l2].into_iter().enumerate() {
                        let tree = set_line(tx.repo_mut(), &base.tree(), path, line, &format!("{uniq}.{m}.side{k}")).map_err(CmdError::Commit)?;
                        let c = tx
                            .repo_mut()
                            .new_commit(vec![base.id().clone()], tree)
                            .set_description(format!("diamond side {uniq}.{m}.{k}"))
                            .write()
                            .block_on()
                            .map_err(|e| CmdError::Commit(err_chain(&e)))?;
                        shared.model.lock().unwrap().written_commits.push((c.id().clone(), c.store_commit().as_ref().clone()));
                        rec.created.push((c.id().clone(), c.change_id().clone()));
                        sides.push(c);
                    }
                    let merged = jj_lib::rewrite::merge_commit_trees(tx.repo(), &sides)
                        .block_on()
                        .map_err(|e| CmdError::Commit(err_chain(&e)))?;
                    let tree = if d.chance(1, 3) {
                        edit_tree(tx.repo_mut(), &merged, d, &format!("{uniq}.{m}m")).map_err(CmdError::Commit)?
                    } else {
                        merged
                    };
                    let top = tx
                        .repo_mut()
                        .new_commit(sides.iter().map(|c| c.id().clone()).collect(), tree)
                        .set_description(format!("diamond merge {uniq}.{m}"))
                        .write()
                        .block_on()
                        .map_err(|e| CmdError::Commit(err_chain(&e)))?;
                    sim.note("note:mut", format!("diamond on {} lines {l1},{l2} of {path} -> merge {}", short(base.id()), short(top.id())));
                    shared.model.lock().unwrap().written_commits.push((top.id().clone(), top.store_commit().as_ref().clone()));
                    rec.created.push((top.id().clone(), top.change_id().clone()));
                    shared.model.lock().unwrap().probe("diamond_mutation");
                }
                9 if !non_root.is_empty() => {
                    // split: the commit is rewritten, and a second commit with a new
                    // change id records the same predecessor (what jj split does)
                    let c = non_root[d.n(non_root.len())].clone();
                    let first = tx
                        .repo_mut()
                        .rewrite_commit(&c)
                        .set_description(format!("split {uniq}.{m}a of {}", short(c.id())))
                        .write()
                        .block_on()
                        .map_err(|e| CmdError::Commit(err_chain(&e)))?;
                    let second = tx
                        .repo_mut()
                        .rewrite_commit(&c)
                        .clear_rewrite_source()
                        .generate_new_change_id()
                        .set_parents(vec![first.id().clone()])
                        .set_description(format!("split {uniq}.{m}b of {}", short(c.id())))
                        .write()
                        .block_on()
                        .map_err(|e| CmdError::Commit(err_chain(&e)))?;
                    sim.note("note:mut", format!("split {} -> {} + {}", short(c.id()), short(first.id()), short(second.id())));
                    {
                        let mut model = shared.model.lock().unwrap();
                        model.written_commits.push((first.id().clone(), first.store_commit().as_ref().clone()));
                        model.written_commits.push((second.id().clone(), second.store_commit().as_ref().clone()));
                        model.probe("split_mutation");
                    }
                    rec.rewritten.push((c.id().clone(), first.id().clone(), c.change_id().clone()));
                    rec.created.push((second.id().clone(), second.change_id().clone()));
                    rec.rewrite_pairs.push((c.id().clone(), first.id().clone()));
                    rec.rewrite_pairs.push((c.id().clone(), second.id().clone()));
                }
                7 if non_root.len() >= 2 => {
                    // squash `src` into `dst`: dst is rewritten with both as
                    // predecessors, src is abandoned (what jj squash does)
                    // half of the time prefer a pair that shares an evolution
                    // ancestor (two halves of a split, divergent copies), so
                    // that the squashed commit's history is a DAG, not a tree
                    let mut related: Vec<(usize, usize)> = vec![];
                    {
                        let closure = |c: &Commit| -> BTreeSet<CommitId> {
                            let mut seen = BTreeSet::new();
                            let mut stack = vec![c.id().clone()];
                            while let Some(id) = stack.pop() {
                                if let Ok(cm) = tx.repo().store().get_commit(&id) {
                                    for p in &cm.store_commit().predecessors {
                                        if seen.insert(p.clone()) {
                                            stack.push(p.clone());
                                        }
                                    }
                                }
                            }
                            seen
                        };
                        let cl: Vec<BTreeSet<CommitId>> = non_root.iter().map(|c| closure(c)).collect();
                        for i in 0..non_root.len() {
                            for j in 0..non_root.len() {
                                if i != j && !cl[i].is_disjoint(&cl[j]) {
                                    related.push((i, j));
                                }
                            }
                        }
                    }
                    let (dst, src) = if !related.is_empty() && d.chance(1, 2) {
                        let (i, j) = related[d.n(related.len())];
                        shared.model.lock().unwrap().probe("squash_of_related_commits");
                        (non_root[i].clone(), non_root[j].clone())
                    } else {
                        (non_root[d.n(non_root.len())].clone(), non_root[d.n(non_root.len())].clone())
                    };
                    if dst.id() == src.id() {
                        continue;
                    }
                    let new = tx
                        .repo_mut()
                        .rewrite_commit(&dst)
                        .set_predecessors(vec![dst.id().clone(), src.id().clone()])
                        .set_description(format!("squash {uniq}.{m} of {} into {}", short(src.id()), short(dst.id())))
                        .write()
                        .block_on()
                        .map_err(|e| CmdError::Commit(err_chain(&e)))?;
                    tx.repo_mut().record_abandoned_commit(&src);
                    sim.note("note:mut", format!("squash {} into {} -> {}", short(src.id()), short(dst.id()), short(new.id())));
                    shared.model.lock().unwrap().written_commits.push((new.id().clone(), new.store_commit().as_ref().clone()));
                    rec.rewritten.push((dst.id().clone(), new.id().clone(), dst.change_id().clone()));
                    rec.abandoned.push((src.id().clone(), src.change_id().clone()));
                    rec.rewrite_pairs.push((dst.id().clone(), new.id().clone()));
                    rec.rewrite_pairs.push((src.id().clone(), new.id().clone()));
                    shared.model.lock().unwrap().probe("squash_mutation");
                }
                1 if !non_root.is_empty() && shared.cfg.git && !shared.cfg.locks_ineffective && d.chance(1, 3) => {
                    // "generic rewrite": the first non-root commit is rewritten into
                    // content that is identical for every process (fixed description
                    // and signatures), with one or two predecessors. Two processes
                    // doing this concurrently produce the same Git object for
                    // different jj metadata; the backend must notice under its
                    // table lock and re-date one of them.
                    let c = non_root[0].clone();
                    let sig = Signature {
                        name: "Generic".to_string(),
                        email: "generic@example.com".to_string(),
                        timestamp: Timestamp {
                            timestamp: MillisSinceEpoch(1_000_000_000_000),
                            tz_offset: 0,
                        },
                    };
                    let mut preds = vec![c.id().clone()];
                    if non_root.len() >= 2 && d.chance(1, 2) {
                        preds.push(non_root[1 + d.n(non_root.len() - 1)].id().clone());
                    }
                    let new = tx
                        .repo_mut()
                        .rewrite_commit(&c)
                        .set_description("generic rewrite")
                        .set_author(sig.clone())
                        .set_committer(sig)
                        .set_predecessors(preds.clone())
                        .write()
                        .block_on()
                        .map_err(|e| CmdError::Commit(err_chain(&e)))?;
                    sim.note("note:mut", format!("generic rewrite {} -> {} ({} predecessors)", short(c.id()), short(new.id()), preds.len()));
                    {
                        let mut model = shared.model.lock().unwrap();
                        model.probe("generic_same_content_rewrite");
                        model.written_commits.push((new.id().clone(), new.store_commit().as_ref().clone()));
                    }
                    rec.rewritten.push((c.id().clone(), new.id().clone(), c.change_id().clone()));
                    for p in &preds {
                        rec.rewrite_pairs.push((p.clone(), new.id().clone()));
                    }
                }
                1 if !non_root.is_empty() => {
                    let c = non_root[d.n(non_root.len())].clone();
                    let amended = if d.chance(1, 3) {
                        Some(edit_tree(tx.repo_mut(), &c.tree(), d, &format!("{uniq}.{m}a")).map_err(CmdError::Commit)?)
                    } else {
                        None
                    };
                    let mut builder = tx
                        .repo_mut()
                        .rewrite_commit(&c)
                        .set_description(format!("rewrite {uniq}.{m} of {}", short(c.id())));
                    if let Some(t) = amended {
                        builder = builder.set_tree(t);
                    }
                    let new = builder
                        .write()
                        .block_on()
                        .map_err(|e| CmdError::Commit(err_chain(&e)))?;
                    sim.note("note:mut", format!("rewrite {} -> {} (change {})", short(c.id()), short(new.id()), short(c.change_id())));
                    shared.model.lock().unwrap().written_commits.push((new.id().clone(), new.store_commit().as_ref().clone()));
                    rec.rewritten.push((c.id().clone(), new.id().clone(), c.change_id().clone()));
                    rec.rewrite_pairs.push((c.id().clone(), new.id().clone()));
                }
                2 if !non_root.is_empty() => {
                    let c = non_root[d.n(non_root.len())].clone();
                    tx.repo_mut().record_abandoned_commit(&c);
                    sim.note("note:mut", format!("abandon {} (change {})", short(c.id()), short(c.change_id())));
                    rec.abandoned.push((c.id().clone(), c.change_id().clone()));
                }
                3 | 4 => {
                    let name = format!("{}{}", if mkind == 3 { "b" } else { "t" }, d.n(shared.cfg.n_bookmarks));
                    let delete = d.chance(1, 6);
                    let target = if delete || vis.is_empty() {
                        None
                    } else {
                        Some(vis[d.n(vis.len())].clone())
                    };
                    let rt = match &target {
                        Some(c) => RefTarget::normal(c.id().clone()),
                        None => RefTarget::absent(),
                    };
                    let rn: RefNameBuf = name.as_str().into();
                    let before = if mkind == 3 {
                        repo.view().get_local_bookmark(&rn).clone()
                    } else {
                        repo.view().get_local_tag(&rn).clone()
                    };
                    let effective = before != rt;
                    if mkind == 3 {
                        tx.repo_mut().set_local_bookmark_target(&rn, rt);
                    } else {
                        tx.repo_mut().set_local_tag_target(&rn, rt);
                    }
                    sim.note(
                        "note:mut",
                        format!("set {name} -> {}", target.as_ref().map_or("absent".to_string(), |c| short(c.id()))),
                    );
                    let _ = effective;
                }
                5 if !vis.is_empty() => {
                    let ws = format!("ws{}", d.n(2));
                    let c = vis[d.n(vis.len())].clone();
                    let wsn: WorkspaceNameBuf = ws.as_str().into();
                    // Working-copy commits must not be the root? jj allows any commit.
                    let effective = repo.view().get_wc_commit_id(&wsn) != Some(c.id());
                    if tx.repo_mut().set_wc_commit(wsn, c.id().clone()).is_ok() {
                        sim.note("note:mut", format!("set_wc {ws} -> {}", short(c.id())));
                        let _ = effective;
                    }
                }
                6 if !non_root.is_empty() => {
                    // divergent rewrite: two new versions of one commit
                    let c = non_root[d.n(non_root.len())].clone();
                    let mut news = vec![];
                    for k in 0..2 {
                        let n = tx
                            .repo_mut()
                            .rewrite_commit(&c)
                            .set_description(format!("divergent {uniq}.{m}.{k}"))
                            .write()
                            .block_on()
                            .map_err(|e| CmdError::Commit(err_chain(&e)))?;
                        shared.model.lock().unwrap().written_commits.push((n.id().clone(), n.store_commit().as_ref().clone()));
                        news.push(n.id().clone());
                    }
                    tx.repo_mut().set_divergent_rewrite(c.id().clone(), news.clone());
                    sim.note("note:mut", format!("divergent rewrite {} -> {:?}", short(c.id()), news.iter().map(short).collect::<Vec<_>>()));
                    // "Children should not be rebased" for a divergent rewrite, so
                    // the old commit legitimately stays visible below them; it
                    // is not recorded as gone.
                    rec.divergent.push(c.change_id().clone());
                    rec.divergent_old.push(c.id().clone());
                    rec.divergent_new.extend(news.iter().cloned());
                    for n in &news {
                        rec.rewrite_pairs.push((c.id().clone(), n.clone()));
                    }
                }
                _ => {
                    // new commit on 1-2 visible parents
                    let np = if vis.len() >= 2 && d.chance(1, 5) { 2 } else { 1 };
                    let mut parents: Vec<Commit> = vec![];
                    for _ in 0..np {
                        let c = vis[d.n(vis.len())].clone();
                        if !parents.iter().any(|p| p.id() == c.id()) {
                            parents.push(c);
                        }
                    }
                    // ... or, sometimes, on a commit that is hidden in the loaded
                    // repository (abandoned or rewritten earlier) but known to its
                    // index: what `jj new <id of a hidden commit>` does
                    if !shared.cfg.heads_focus && d.chance(1, 6) {
                        let vis_ids: HashSet<CommitId> = visible_commits(repo.as_ref()).iter().map(|c| c.id().clone()).collect();
                        let written: Vec<CommitId> = shared.model.lock().unwrap().written_commits.iter().map(|(id, _)| id.clone()).collect();
                        let hidden: Vec<Commit> = sched::without_hooks(|| {
                            written
                                .iter()
                                .filter(|id| !vis_ids.contains(*id) && !gone_here.contains(*id))
                                .filter(|id| repo.index().has_id(id).block_on().unwrap_or(false))
                                .filter_map(|id| repo.store().get_commit(id).ok())
                                .collect()
                        });
                        // prefer a hidden commit sitting directly on a current head (an
                        // abandoned leaf): building on it turns that head into an ancestor
                        let on_head: Vec<Commit> = hidden
                            .iter()
                            .filter(|h| h.parent_ids().iter().any(|p| repo.view().heads().contains(p)))
                            .cloned()
                            .collect();
                        let hidden = if !on_head.is_empty() && d.chance(2, 3) { on_head } else { hidden };
                        if !hidden.is_empty() {
                            let h = hidden[d.n(hidden.len())].clone();
                            sim.note("note:mut", format!("building on hidden commit {}", short(h.id())));
                            shared.model.lock().unwrap().probe("new_commit_on_hidden_parent");
                            rec.resurrects.push(h.id().clone());
                            parents = vec![h];
                        }
                    }
                    if parents.len() > 1 {
                        parents.retain(|p| *p.id() != root_id);
                    }
                    let base_tree = if parents.len() > 1 && !shared.cfg.heads_focus && d.chance(2, 3) {
                        // a real merge commit: starts from the automatic merge of its parents
                        jj_lib::rewrite::merge_commit_trees(tx.repo(), &parents)
                            .block_on()
                            .map_err(|e| CmdError::Commit(err_chain(&e)))?
                    } else {
                        parents[0].tree()
                    };
                    let tree = if shared.cfg.heads_focus || (parents.len() > 1 && d.chance(1, 3)) {
                        base_tree
                    } else {
                        edit_tree(tx.repo_mut(), &base_tree, d, &format!("{uniq}.{m}")).map_err(CmdError::Commit)?
                    };
                    // With the Git backend the commit id does not cover the change id:
                    // two processes that create commits identical in every Git-visible
                    // field (same parents, tree, message, author and committer to the
                    // second) get the same commit id for different change ids unless
                    // the backend, under its table lock, notices and re-dates one of
                    // them. Only generated while the lock works.
                    let generic = shared.cfg.git && !shared.cfg.locks_ineffective && rec.resurrects.is_empty() && d.chance(1, 4);
                    if generic {
                        let sig = Signature {
                            name: "Generic".to_string(),
                            email: "generic@example.com".to_string(),
                            timestamp: Timestamp {
                                timestamp: MillisSinceEpoch(1_000_000_000_000),
                                tz_offset: 0,
                            },
                        };
                        let parent = vis.iter().find(|c| *c.id() == root_id).cloned().unwrap_or_else(|| vis[0].clone());
                        let new = tx
                            .repo_mut()
                            .new_commit(vec![parent.id().clone()], parent.tree())
                            .set_description("generic commit")
                            .set_author(sig.clone())
                            .set_committer(sig)
                            .write()
                            .block_on()
                            .map_err(|e| CmdError::Commit(err_chain(&e)))?;
                        sim.note("note:mut", format!("generic commit {} (change {})", short(new.id()), short(new.change_id())));
                        let mut model = shared.model.lock().unwrap();
                        model.probe("generic_same_content_commit");
                        model.written_commits.push((new.id().clone(), new.store_commit().as_ref().clone()));
                        drop(model);
                        rec.created.push((new.id().clone(), new.change_id().clone()));
                        continue;
                    }
                    let mut b = tx
                        .repo_mut()
                        .new_commit(parents.iter().map(|p| p.id().clone()).collect(), tree)
                        .set_description(format!("new {uniq}.{m}"));
                    if d.chance(1, 3) {
                        let names = ["", "Ünï Côdé", "A"];
                        let sig = Signature {
                            name: names[d.n(3)].to_string(),
                            email: ["", "x@y"][d.n(2)].to_string(),
                            timestamp: Timestamp {
                                timestamp: MillisSinceEpoch([0i64, -1, 1_234_567, -86_400_123, 4_102_444_800_999][d.n(5)]),
                                tz_offset: [0, 60, -720, 840, -1][d.n(5)],
                            },
                        };
                        b = b.set_author(sig);
                    }
                    let new = b.write().block_on().map_err(|e| CmdError::Commit(err_chain(&e)))?;
                    sim.note(
                        "note:mut",
                        format!(
                            "new {} (change {}) on {:?}",
                            short(new.id()),
                            short(new.change_id()),
                            parents.iter().map(|p| short(p.id())).collect::<Vec<_>>()
                        ),
                    );
                    shared.model.lock().unwrap().written_commits.push((new.id().clone(), new.store_commit().as_ref().clone()));
                    rec.created.push((new.id().clone(), new.change_id().clone()));
                }
            }
        }
        // --- rebase descendants with drawn options (C11)
        let options = RebaseOptions {
            empty: [EmptyBehavior::Keep, EmptyBehavior::AbandonNewlyEmpty, EmptyBehavior::AbandonAllEmpty][d.weighted(&[4, 1, 1])],
            rewrite_refs: RewriteRefsOptions {
                delete_abandoned_bookmarks: d.chance(1, 4),
            },
            simplify_ancestor_merge: d.chance(1, 4),
        };
        let mut auto: Vec<(Commit, Option<Commit>)> = vec![];
        // Commands that rewrote nothing need not call rebase_descendants (the CLI
        // does not, e.g. `jj new`); calling it re-normalises the heads, which
        // would hide a head set left un-normalised by an incremental update.
        if tx.repo().has_rewrites() || d.chance(1, 2) {
            tx.repo_mut()
                .rebase_descendants_with_options(&RevsetExpression::none(), &options, |old, rebased| {
                    let new = match rebased {
                        RebasedCommit::Rewritten(c) => Some(c),
                        RebasedCommit::Abandoned { .. } => None,
                    };
                    auto.push((old, new));
                })
                .block_on()
                .map_err(|e| CmdError::Commit(err_chain(&e)))?;
        } else {
            shared.model.lock().unwrap().probe("tx_without_rebase_descendants");
        }
        for (old, new) in &auto {
            rec.auto_rebased.push(old.id().clone());
            if let Some(n) = new {
                rec.rewrite_pairs.push((old.id().clone(), n.id().clone()));
            }
            if let Some(n) = new {
                shared.model.lock().unwrap().written_commits.push((n.id().clone(), n.store_commit().as_ref().clone()));
            }
        }
        for (old, new) in &auto {
            if new.is_none() {
                // abandoned by the empty-commit policy
                rec.abandoned.push((old.id().clone(), old.change_id().clone()));
            }
        }
        rec.refs = diff_refs(repo.as_ref(), tx.repo());
        if !rec.restore {
            Self::check_c11(shared, sim, tx.repo(), &rec, &auto, &options);
        }
        // Rewritten/abandoned commits that are still visible in this very
        // transaction's result (they sit below a divergently rewritten commit,
        // whose children jj does not rebase): this side never hid them, so
        // the reconciled repository need not hide them either (C13).
        rec.still_visible_gone = sched::without_hooks(|| {
            let heads: Vec<CommitId> = tx.repo().view().heads().iter().cloned().collect();
            let vis = Graph::load(tx.repo().store(), heads.clone()).ancestors(&heads);
            rec.rewritten
                .iter()
                .map(|(o, _, _)| o)
                .chain(rec.abandoned.iter().map(|(o, _)| o))
                .filter(|o| vis.contains(*o))
                .cloned()
                .collect()
        });
        // --- write, register intent, publish
        let desc = format!("tx {uniq}");
        rec.description = desc.clone();
        let unpublished = tx.write(desc).block_on().map_err(|e| CmdError::Commit(err_chain(&e)))?;
        let op = unpublished.operation().clone();
        rec.op_id = Some(op.id().clone());
        let tx_index = {
            let mut model = shared.model.lock().unwrap();
            rec.id = model.txs.len();
            if rec.restore {
                model.restores_written += 1;
                model.probe("restore_tx_written");
            }
            model.txs.push(rec);
            model.written_ops.push((op.id().clone(), op.store_operation().clone()));
            model.txs.len() - 1
        };
        sim.note("note:tx_written", format!("op {} parent {}", short(op.id()), short(repo.op_id())));
        let new_repo = unpublished.publish().block_on().map_err(|e| CmdError::Commit(err_chain(&e)))?;
        {
            let mut model = shared.model.lock().unwrap();
            model.txs[tx_index].publish_returned = true;
            model
                .written_views
                .push((op.view_id().clone(), new_repo.view().store_view().clone()));
        }
        sim.note("note:tx_published", short(op.id()));
        Self::monitors(shared, sim, d, &loader, new_repo.as_ref(), "committed");
        // C22 runs: sometimes the same process goes on working on exactly this
        // operation (as `--at-op` does) after turning the changed-path index off
        // and on again with `max_commits` 0 or 1, and writes one more commit. Its
        // branch of the operation log then has commits written while the index
        // was off followed by an indexed one, while other processes extend the
        // fully indexed branch.
        if shared.cfg.c22_focus && d.chance(1, 5) {
            if let Some(store) = new_repo.index_store().downcast_ref::<jj_lib::default_index::DefaultIndexStore>() {
                let max = [0u32, 0, 1][d.n(3)];
                store
                    .build_changed_path_index_at_operation(new_repo.op_id(), new_repo.store(), max, |_| {})
                    .block_on()
                    .map_err(|e| CmdError::Load(format!("index changed-path rebuild: {}", err_chain(&e))))?;
                sim.note("note:reindex", format!("same process: changed-path index of {} enabled/extended with max_commits={max}", short(new_repo.op_id())));
                let repo2 = loader.load_at(new_repo.operation()).block_on().map_err(|e| CmdError::Load(err_chain(&e)))?;
                let mut tx2 = repo2.start_transaction();
                let parents: Vec<Commit> = visible_commits(tx2.repo());
                let parent = parents[d.n(parents.len())].clone();
                let tree = edit_tree(tx2.repo_mut(), &parent.tree(), d, &format!("{uniq}.follow")).map_err(CmdError::Commit)?;
                let c = tx2
                    .repo_mut()
                    .new_commit(vec![parent.id().clone()], tree)
                    .set_description(format!("follow-up {uniq}"))
                    .write()
                    .block_on()
                    .map_err(|e| CmdError::Commit(err_chain(&e)))?;
                sim.note("note:mut", format!("follow-up commit {} on {}", short(c.id()), short(parent.id())));
                let mut rec2 = TxRec {
                    pid,
                    cmd,
                    parent_ops: vec![repo2.op_id().clone()],
                    description: format!("tx {uniq} follow-up"),
                    ..TxRec::default()
                };
                rec2.created.push((c.id().clone(), c.change_id().clone()));
                shared.model.lock().unwrap().written_commits.push((c.id().clone(), c.store_commit().as_ref().clone()));
                let unpublished2 = tx2.write(rec2.description.clone()).block_on().map_err(|e| CmdError::Commit(err_chain(&e)))?;
                let op2 = unpublished2.operation().clone();
                rec2.op_id = Some(op2.id().clone());
                let idx2 = {
                    let mut model = shared.model.lock().unwrap();
                    rec2.id = model.txs.len();
                    model.txs.push(rec2);
                    model.written_ops.push((op2.id().clone(), op2.store_operation().clone()));
                    model.probe("c22_follow_up_after_index_toggle");
                    model.txs.len() - 1
                };
                sim.note("note:tx_written", format!("op {} parent {}", short(op2.id()), short(repo2.op_id())));
                let repo3 = unpublished2.publish().block_on().map_err(|e| CmdError::Commit(err_chain(&e)))?;
                {
                    let mut model = shared.model.lock().unwrap();
                    model.txs[idx2].publish_returned = true;
                    model.written_views.push((op2.view_id().clone(), repo3.view().store_view().clone()));
                }
                sim.note("note:tx_published", short(op2.id()));
                Self::monitors(shared, sim, d, &loader, repo3.as_ref(), "committed");
            }
        }
        Ok(())
    }

    /// C16: arbitrary `op_store::View` / `op_store::Operation` values written
    /// straight through the `OpStore` interface (as another client of the
    /// store may): every map may hold conflicted and absent targets, remote
    /// refs in both states, several workspaces; operations carry random
    /// metadata, attributes and predecessor maps. Other processes read them
    /// back by id.
    fn raw_op_store_writes(shared: &Arc<Shared>, sim: &Arc<Sim>, d: &Draw<'_>, loader: &RepoLoader, repo: &ReadonlyRepo) {
        use jj_lib::op_store::RemoteRef;
        use jj_lib::op_store::RemoteRefState;
        use jj_lib::op_store::RemoteView;
        let ids: Vec<CommitId> = visible_commits(repo).iter().map(|c| c.id().clone()).collect();
        if ids.is_empty() {
            return;
        }
        let pick = |d: &Draw<'_>| ids[d.n(ids.len())].clone();
        let target = |d: &Draw<'_>| -> RefTarget {
            match d.weighted(&[4, 2, 2, 1]) {
                1 => RefTarget::absent(),
                2 => RefTarget::from_legacy_form([pick(d)], [pick(d), pick(d)]),
                3 => RefTarget::from_merge(jj_lib::merge::Merge::from_vec(vec![None, Some(pick(d)), Some(pick(d)), None, Some(pick(d))])),
                _ => RefTarget::normal(pick(d)),
            }
        };
        let remote_ref = |d: &Draw<'_>| RemoteRef {
            target: target(d),
            state: if d.chance(1, 2) { RemoteRefState::Tracked } else { RemoteRefState::New },
        };
        let mut view = op_store::View::make_root(pick(d));
        for _ in 0..d.n(3) {
            view.head_ids.insert(pick(d));
        }
        for i in 0..d.n(3) {
            view.local_bookmarks.insert(format!("rb{i}").as_str().into(), target(d));
        }
        for i in 0..d.n(3) {
            view.local_tags.insert(format!("rt{i} \u{fc}").as_str().into(), target(d));
        }
        for r in 0..d.n(3) {
            let mut rv = RemoteView::default();
            for i in 0..1 + d.n(2) {
                rv.bookmarks.insert(format!("rb{i}").as_str().into(), remote_ref(d));
            }
            for i in 0..d.n(2) {
                rv.tags.insert(format!("rt{i}").as_str().into(), remote_ref(d));
            }
            view.remote_views.insert(["origin", "up stream", "git"][r].into(), rv);
        }
        for i in 0..d.n(3) {
            view.git_refs.insert(format!("refs/heads/raw{i}").as_str().into(), target(d));
        }
        for i in 0..d.n(3) {
            view.git_heads.insert(format!("ws{i}").as_str().into(), target(d));
        }
        for i in 0..d.n(3) {
            view.wc_commit_ids.insert(format!("ws{i}").as_str().into(), pick(d));
        }
        let op_store = loader.op_store();
        let Ok(view_id) = op_store.write_view(&view).block_on() else {
            return;
        };
        shared.model.lock().unwrap().raw_views.push((view_id.clone(), view));
        let ts = |d: &Draw<'_>| Timestamp {
            timestamp: MillisSinceEpoch([0i64, -1, 1_700_000_000_123, 253_402_300_799_999][d.n(4)]),
            tz_offset: [0, -720, 840, 1][d.n(4)],
        };
        let mut attributes = BTreeMap::new();
        for i in 0..d.n(3) {
            attributes.insert(format!("key{i}"), ["", "value", "multi\nline \u{1f600}"][d.n(3)].to_string());
        }
        let predecessors = match d.n(3) {
            0 => None,
            1 => Some(BTreeMap::new()),
            _ => {
                let mut m = BTreeMap::new();
                for _ in 0..1 + d.n(3) {
                    let preds: Vec<CommitId> = (0..d.n(3)).map(|_| pick(d)).collect();
                    m.insert(pick(d), preds);
                }
                Some(m)
            }
        };
        let op = op_store::Operation {
            view_id,
            parents: (0..1 + d.n(2)).map(|_| repo.op_id().clone()).collect::<BTreeSet<_>>().into_iter().collect(),
            metadata: op_store::OperationMetadata {
                time: op_store::TimestampRange { start: ts(d), end: ts(d) },
                description: ["", "raw op", "line1\nline2"][d.n(3)].to_string(),
                hostname: ["", "host.example.com"][d.n(2)].to_string(),
                username: ["", "us\u{e9}r"][d.n(2)].to_string(),
                is_snapshot: d.chance(1, 2),
                workspace_name: if d.chance(1, 2) { Some("ws0".into()) } else { None },
                attributes,
            },
            commit_predecessors: predecessors,
        };
        if let Ok(op_id) = op_store.write_operation(&op).block_on() {
            shared.model.lock().unwrap().raw_ops.push((op_id, op));
            shared.model.lock().unwrap().probe("c16_raw_values_written");
            sim.note("note:raw", "wrote a generated view and operation straight through the OpStore".to_string());
        }
    }

    fn monitors(shared: &Arc<Shared>, sim: &Arc<Sim>, d: &Draw<'_>, loader: &RepoLoader, repo: &dyn Repo, ctx: &str) {
        if shared.cfg.heads_focus {
            return;
        }
        // pre-draw the numbers the index check needs so that the number of
        // draws does not depend on what the check finds
        let mut nums: Vec<usize> = (0..24).map(|_| d.n(1 << 16)).collect();
        sched::without_hooks(|| {
            check_view_c10(shared, sim, repo, ctx);
            check_index_c18(shared, sim, repo, ctx, &mut nums);
            check_roundtrip(shared, sim, loader, repo, ctx);
            if shared.cfg.changed_paths {
                check_changed_paths_c22(shared, sim, repo, ctx);
            }
        });
    }

    /// C11 on the transaction's own result, right after descendants were
    /// rebased.
    fn check_c11(
        shared: &Arc<Shared>,
        sim: &Arc<Sim>,
        repo: &MutableRepo,
        rec: &TxRec,
        auto: &[(Commit, Option<Commit>)],
        options: &RebaseOptions,
    ) {
        sched::without_hooks(|| {
            let at = cur_seq(sim);
            let view = repo.view();
            let heads: Vec<CommitId> = view.heads().iter().cloned().collect();
            let g = Graph::load(repo.store(), heads.clone());
            let visible = g.ancestors(&heads);
            let mut model = shared.model.lock().unwrap();
            // no visible commit descends from (or is) a rewritten/abandoned commit
            let mut gone: Vec<CommitId> = rec.rewritten.iter().map(|(o, _, _)| o.clone()).collect();
            gone.extend(rec.abandoned.iter().map(|(o, _)| o.clone()));
            gone.extend(auto.iter().map(|(o, _)| o.id().clone()));
            // a commit that was both created and then rewritten in this very
            // transaction is of course also gone
            // "Children should not be rebased" for a divergent rewrite: the old
            // commit and therefore all its ancestors stay visible below them.
            let exempt = g.ancestors(&rec.divergent_old);
            for old in &gone {
                if exempt.contains(old) {
                    continue;
                }
                // a commit rewritten and re-created identically (same id) stays
                let recreated = rec.rewritten.iter().any(|(_, n, _)| n == old)
                    || auto.iter().any(|(_, n)| n.as_ref().is_some_and(|n| n.id() == old))
                    || rec.created.iter().any(|(c, _)| c == old && !rec.rewritten.iter().any(|(o, _, _)| o == old) && !rec.abandoned.iter().any(|(o, _)| o == old));
                if recreated {
                    continue;
                }
                if visible.contains(old) {
                    model.violate(
                        "C11",
                        "orphan_or_old_commit_visible",
                        "reposim:c11:old_commit_visible".into(),
                        format!(
                            "rewritten/abandoned commit {} is still an ancestor of a head after rebase_descendants; visible children: {:?}; heads: {:?}",
                            short(old),
                            visible
                                .iter()
                                .filter(|c| g.parents[*c].contains(old))
                                .map(|c| format!("{} {:?}", short(c), repo.store().get_commit(c).map(|c| c.description().to_string()).unwrap_or_default()))
                                .collect::<Vec<_>>(),
                            visible
                                .iter()
                                .map(|c| format!("{}<-{:?} {:?}", short(c), g.parents[c].iter().map(short).collect::<Vec<_>>(), repo.store().get_commit(c).map(|c| c.description().to_string()).unwrap_or_default()))
                                .collect::<Vec<_>>()
                        ),
                        at,
                    );
                }
            }
            // each rebased commit keeps change id + description and records its predecessor
            for (old, new) in auto {
                if let Some(new) = new {
                    if new.change_id() != old.change_id() {
                        model.violate("C11", "rebased_change_id_changed", "reposim:c11:change_id".into(),
                            format!("rebased {} -> {} changed change id", short(old.id()), short(new.id())), at);
                    }
                    if new.description() != old.description() {
                        model.violate("C11", "rebased_description_changed", "reposim:c11:description".into(),
                            format!("rebased {} -> {} changed description", short(old.id()), short(new.id())), at);
                    }
                    if !new.store_commit().predecessors.contains(old.id()) {
                        model.violate("C11", "rebased_predecessor_missing", "reposim:c11:predecessor".into(),
                            format!("rebased {} does not list {} as predecessor", short(new.id()), short(old.id())), at);
                    }
                }
            }
            // references follow: nothing points at a gone commit any more
            let gone_set: HashSet<&CommitId> = gone.iter().collect();
            for (name, t) in view.local_bookmarks() {
                for id in t.added_ids() {
                    if gone_set.contains(id) && !exempt.contains(id) {
                        model.violate("C11", "bookmark_left_on_rewritten_commit", "reposim:c11:bookmark_left_behind".into(),
                            format!("bookmark {} still points at rewritten/abandoned commit {}", name.as_str(), short(id)), at);
                    }
                }
            }
            for (ws, id) in view.wc_commit_ids() {
                if gone_set.contains(id) && !exempt.contains(id) {
                    model.violate("C11", "wc_left_on_rewritten_commit", "reposim:c11:wc_left_behind".into(),
                        format!("working copy {} still points at rewritten/abandoned commit {}", ws.as_str(), short(id)), at);
                }
            }
            // change ids unique among visible commits unless divergence was recorded
            // (pre-existing divergence from earlier operations is allowed)
            let base_view = repo.base_repo().view();
            let base_heads: Vec<CommitId> = base_view.heads().iter().cloned().collect();
            let gb = Graph::load(repo.store(), base_heads.clone());
            let base_visible = gb.ancestors(&base_heads);
            let mut base_count: HashMap<&ChangeId, usize> = HashMap::new();
            for c in &base_visible {
                *base_count.entry(&gb.change[c]).or_insert(0) += 1;
            }
            let mut count: HashMap<&ChangeId, usize> = HashMap::new();
            for c in &visible {
                *count.entry(&g.change[c]).or_insert(0) += 1;
            }
            for (change, n) in &count {
                let before = base_count.get(*change).copied().unwrap_or(0);
                if *n > 1 && *n > before && !rec.divergent.contains(*change) && rec.resurrects.is_empty() {
                    // a divergent rewrite of an ancestor legitimately duplicates
                    // the change ids of its rebased descendants
                    if rec.divergent.is_empty() {
                        model.violate("C11", "duplicate_change_id", "reposim:c11:duplicate_change_id".into(),
                            format!("{n} visible commits share change id {} (before: {before}) without a recorded divergent rewrite", short(*change)), at);
                    }
                }
            }
            let _ = options;
            model.probe("c11_checked_tx");
            if !auto.is_empty() {
                model.probe("c11_descendants_rebased");
            }
        });
    }
}

// ---------------------------------------------------------------------------
// engine

impl Engine for RepoSim {
    fn name(&self) -> &'static str {
        "reposim"
    }

    fn properties(&self) -> Vec<&'static str> {
        vec!["C14", "C13", "C10", "C11", "C16", "C17", "C18", "C22", "C46"]
    }

    fn budget(&self, prop: &str, tier: Tier) -> Budget {
        match (tier, prop) {
            (Tier::Quick, _) => Budget { runs: 6_000, max_seconds: 75 },
            (Tier::Thorough, _) => Budget { runs: 600_000, max_seconds: 1200 },
        }
    }

    fn rule(&self, _prop: &str) -> String {
        "one evaluation = one simulated run of 2-4 jj process slots x 1-4 commands (load at head / at an older operation, one \
         transaction of generated mutations, rebase descendants, write, publish; readers; index rebuilds) on one repository, \
         scheduled at the file-system primitives by the seeded chooser; distinct = distinct hash of the (process, primitive) \
         event sequence; non-trivial = primitives of two processes interleaved inside one command, or a fault fired"
            .to_string()
    }

    fn components_real(&self) -> Vec<&'static str> {
        vec![
            "jj_lib::repo (RepoLoader, ReadonlyRepo, MutableRepo, merge_operations)",
            "jj_lib::transaction",
            "jj_lib::op_heads_store + simple_op_heads_store",
            "jj_lib::simple_op_store",
            "jj_lib::default_index (store, segments, op links)",
            "jj_lib::simple_backend / jj_lib::git_backend (+gix) incl. stacked_table extras",
            "tmpfs directory",
        ]
    }

    fn components_stub(&self) -> Vec<&'static str> {
        vec![
            "flock (scheduler-owned lock table, hook H2)",
            "process scheduling, crashes and I/O errors (baton scheduler, hook H1)",
            "operation/commit clocks (debug.operation-timestamp / debug.commit-timestamp per simulated process)",
            "change-id randomness (debug.randomness-seed per simulated process)",
        ]
    }

    fn assumptions(&self, _prop: &str) -> Vec<String> {
        vec![
            "directory listing, file create, unlink and rename are atomic steps".to_string(),
            "a crashed process loses memory and locks; its files stay".to_string(),
            "the backend's own commit objects are the ground truth for the commit graph (checked separately by the C17 monitor)".to_string(),
        ]
    }

    fn fault_kinds(&self) -> Vec<&'static str> {
        vec!["crash", "ioerr", "locks_ineffective", "clock_skew", "stale_start"]
    }

    #[allow(clippy::too_many_lines)]
    fn run(&self, prop: &str, mut chooser: Chooser, scratch: &Path) -> RunOutcome {
        let mut out = RunOutcome::default();
        WRITTEN_OBJECTS.lock().unwrap().clear();
        let heads_focus = prop == "C14" && chooser.chance(2, 3);
        let n_procs = chooser.range(2, 4);
        let cmds: Vec<usize> = (0..n_procs).map(|_| chooser.range(1, if heads_focus { 4 } else { 3 })).collect();
        let switch_den = *chooser.pick(&[3usize, 1, 2, 6, 15, 40]);
        let crash = *chooser.pick(&[0usize, 0, 8, 25]);
        let ioerr = *chooser.pick(&[0usize, 0, 0, 10]);
        let locks_ineffective = chooser.chance(1, 3);
        let git = matches!(prop, "C17") && chooser.chance(1, 2);
        let no_change_id_header = git && chooser.chance(1, 2);
        let skewed = chooser.chance(1, 3);
        let skew_ms: Vec<i64> = (0..n_procs)
            .map(|_| if skewed { [0i64, -7_200_000, 5_000, 86_000_000][chooser.choose(4)] } else { 0 })
            .collect();
        let older_op_chance = if prop == "C22" { *chooser.pick(&[0usize, 3, 2]) } else { *chooser.pick(&[0usize, 8, 4]) };
        let n_bookmarks = *chooser.pick(&[2usize, 1, 4]);
        let cfg = SimCfg {
            switch_den,
            crash_per_mille: crash,
            max_crashes: if crash > 0 { 2 } else { 0 },
            ioerr_per_mille: ioerr,
            max_ioerrs: if ioerr > 0 { 2 } else { 0 },
            locks_ineffective,
            max_events: 4000,
            fallible_kinds: &["persist", "opheads:add"],
        };
        out.config = format!(
            "procs={n_procs} cmds={cmds:?} switch=1/{switch_den} crash={crash}/1000 ioerr={ioerr}/1000 locks_ineffective={locks_ineffective} backend={} heads_focus={heads_focus} skew={skew_ms:?} older_op=1/{older_op_chance} bookmarks={n_bookmarks}",
            if git { "git" } else { "simple" }
        );
        // --- repository, created sequentially before anybody runs
        let repo_dir = scratch.join("repo");
        std::fs::create_dir_all(&repo_dir).unwrap();
        let init_settings = make_settings(7, 0, 0, 2001, "+00:00", "");
        let init = ReadonlyRepo::init(
            &init_settings,
            &repo_dir,
            &|settings, store_path| {
                if git {
                    Ok(Box::new(
                        GitBackend::init_internal(settings, store_path, gix::hash::Kind::default())
                            .map_err(|e| jj_lib::backend::BackendInitError(e.into()))?,
                    ))
                } else {
                    Ok(Box::new(SimpleBackend::init(store_path)))
                }
            },
            Signer::from_settings(&init_settings).unwrap(),
            ReadonlyRepo::default_op_store_initializer(),
            ReadonlyRepo::default_op_heads_store_initializer(),
            ReadonlyRepo::default_index_store_initializer(),
            ReadonlyRepo::default_submodule_store_initializer(),
        )
        .block_on();
        let init_repo = match init {
            Ok(r) => r,
            Err(e) => {
                out.harness_error = Some(format!("repo init failed: {}", err_chain(&e)));
                return out;
            }
        };
        let repo_dir = std::fs::canonicalize(&repo_dir).unwrap();
        let root_op_hex = init_repo.op_store().root_operation_id().hex();
        // a little starting history
        {
            let mut tx = init_repo.start_transaction();
            let root = tx.repo().store().root_commit();
            let mut prev = root.clone();
            let n0 = chooser.range(0, 3);
            for i in 0..n0 {
                let tree = if heads_focus {
                    prev.tree()
                } else {
                    let t = write_tree(tx.repo_mut(), &prev.tree(), &format!("f{}", i % 4), &format!("init{i}\n")).unwrap();
                    if i == 0 {
                        // the multi-line files exist from the start, so that concurrent
                        // one-line edits have a common base
                        let five = "line 1\nline 2\nline 3\nline 4\nline 5\n";
                        let t = write_tree(tx.repo_mut(), &t, MULTILINE_PATHS[0], five).unwrap();
                        write_tree(tx.repo_mut(), &t, MULTILINE_PATHS[1], five).unwrap()
                    } else {
                        t
                    }
                };
                let c = tx
                    .repo_mut()
                    .new_commit(vec![prev.id().clone()], tree)
                    .set_description(format!("init {i}"))
                    .write()
                    .block_on()
                    .unwrap();
                if chooser.chance(1, 2) {
                    prev = c;
                }
            }
            tx.repo_mut().rebase_descendants().block_on().unwrap();
            tx.commit("init history").block_on().unwrap();
        }
        let changed_paths = prop == "C22" || chooser.chance(1, 4);
        let restores = prop == "C46" && chooser.chance(1, 2);
        // In C22 runs the changed-path index is off at the start half of the
        // time (jj's default) and gets enabled later by a maintenance command on
        // one branch of the operation log: "enabled only partway".
        let enabled_at_start = prop != "C22" || chooser.chance(1, 2);
        if changed_paths && !heads_focus && enabled_at_start {
            let settings = make_settings(8, 0, 0, 2001, "+00:00", "");
            let loader = RepoLoader::init_from_file_system(&settings, &repo_dir, &jj_lib::default_backend_factories::default_backend_factories()).unwrap();
            let repo = loader.load_at_head().block_on().unwrap();
            if let Some(store) = repo.index_store().downcast_ref::<jj_lib::default_index::DefaultIndexStore>() {
                let max = [1000u32, 1, 2][chooser.choose(3)];
                store.build_changed_path_index_at_operation(repo.op_id(), repo.store(), max, |_| {}).block_on().unwrap();
            }
        }
        drop(init_repo);
        let shared = Arc::new(Shared {
            repo_dir: repo_dir.clone(),
            model: Mutex::new(Model::default()),
            cfg: RunCfg {
                git,
                heads_focus,
                n_bookmarks,
                skew_ms: skew_ms.clone(),
                older_op_chance,
                changed_paths: changed_paths && !heads_focus,
                locks_ineffective,
                c22_focus: prop == "C22",
                no_change_id_header,
                restores,
            },
            root_op_hex,
        });
        for h in list_op_heads(&repo_dir) {
            shared.model.lock().unwrap().seen_heads.insert(h);
        }
        let sim = Sim::new(std::fs::canonicalize(scratch).unwrap(), chooser, cfg);
        // --- C14 invariants after every event
        {
            let shared = shared.clone();
            let obs_settings = make_settings(9, 0, 0, 2001, "+00:00", "");
            let obs_loader = RepoLoader::init_from_file_system(&obs_settings, &repo_dir, &jj_lib::default_backend_factories::default_backend_factories()).unwrap();
            sim.set_observer(Arc::new(move |sim: &Sim, ev| {
                let heads = list_op_heads(&shared.repo_dir);
                {
                    let mut model = shared.model.lock().unwrap();
                    for h in &heads {
                        model.seen_heads.insert(h.clone());
                    }
                    model.max_heads_seen = model.max_heads_seen.max(heads.len());
                    if heads.len() >= 2 {
                        model.probe("event_with_2plus_op_heads");
                    }
                    if heads.len() >= 3 {
                        model.probe("event_with_3plus_op_heads");
                    }
                    if heads.is_empty() {
                        model.violate(
                            "C14",
                            "no_op_head",
                            "reposim:c14:no_op_head".into(),
                            format!("op_heads/heads is empty before event {} ({} by p{})", ev.seq, ev.kind, ev.pid),
                            ev.seq,
                        );
                        drop(model);
                        sim.request_stop();
                        return;
                    }
                }
                // every published operation is reachable from the listed heads
                match op_ancestors(&shared, &obs_loader, &heads) {
                    Ok(reach) => {
                        let mut model = shared.model.lock().unwrap();
                        let lost: Vec<String> = model.seen_heads.iter().filter(|h| !reach.contains(*h)).cloned().collect();
                        if let Some(l) = lost.first() {
                            model.violate(
                                "C14",
                                "published_operation_unreachable",
                                "reposim:c14:published_operation_unreachable".into(),
                                format!(
                                    "operation {} was published (listed as a head earlier) but is no ancestor of the heads {:?} before event {} ({} by p{})",
                                    &l[..8],
                                    heads.iter().map(|h| h[..8].to_string()).collect::<Vec<_>>(),
                                    ev.seq,
                                    ev.kind,
                                    ev.pid
                                ),
                                ev.seq,
                            );
                            drop(model);
                            sim.request_stop();
                        }
                    }
                    Err(missing) => {
                        let mut model = shared.model.lock().unwrap();
                        model.violate(
                            "C14",
                            "head_without_operation",
                            "reposim:c14:head_without_operation".into(),
                            format!("operation {} is reachable from the heads directory but cannot be read from the op store (event {})", &missing[..8], ev.seq),
                            ev.seq,
                        );
                        drop(model);
                        sim.request_stop();
                    }
                }
            }));
        }
        let body_shared = shared.clone();
        sim.run(
            &cmds,
            Arc::new(move |sim, slot, cmd| RepoSim::body(&body_shared, sim, slot, cmd)),
            true,
        );
        // --- quiescence
        let aborted = sim.inner.lock().unwrap().aborted.clone();
        let stopped = sim.inner.lock().unwrap().stop;
        if !stopped && aborted.is_none() {
            self.quiescence(&shared, &sim);
        }
        sim.shutdown();
        // --- collect
        let model = shared.model.lock().unwrap();
        for (p, inv, key, msg, at) in &model.violations {
            out.violate(p, inv, key.clone(), msg.clone(), *at);
        }
        let inner = sim.inner.lock().unwrap();
        if let Some(a) = &inner.aborted {
            if a.starts_with("panic") {
                let (p, inv, key) = if a.contains("RewriteRootCommit") {
                    ("C11", "panic_wc_follows_rewrite_to_root", "reposim:c11:panic_wc_follows_rewrite_to_root")
                } else {
                    (prop, "panic", "reposim:panic")
                };
                out.violate(
                    p,
                    inv,
                    key.to_string(),
                    a.clone(),
                    inner.log.last().map_or(0, |e| e.seq),
                );
            } else if a.contains("budget") {
                out.probe("event_budget_exhausted", 1);
            } else {
                out.harness_error = Some(a.clone());
            }
        }
        out.events = inner.log.len() as u64;
        out.sim_ticks = inner.log.last().map_or(0, |e| e.seq) * 1000;
        out.fault("crash", inner.crashes);
        out.fault("ioerr", inner.ioerrs);
        if locks_ineffective {
            out.fault("locks_ineffective", inner.counters.get("lock_granted_ineffective").copied().unwrap_or(0));
        }
        if skewed {
            out.fault("clock_skew", 1);
        }
        out.fault("stale_start", model.probes.get("load_at_older_operation").copied().unwrap_or(0));
        for (k, v) in &inner.counters {
            out.probe(k, *v);
        }
        for (k, v) in &model.probes {
            out.probe(k, *v);
        }
        out.probe("tx_published", model.txs.iter().filter(|t| t.publish_returned).count() as u64);
        out.probe("tx_written", model.txs.len() as u64);
        let mut interleaved = false;
        {
            let mut open: BTreeMap<usize, usize> = BTreeMap::new();
            let mut last: Option<usize> = None;
            for e in inner.log.iter().filter(|e| !e.kind.starts_with("note:") && e.kind != "cmd:end") {
                if let Some(lp) = last
                    && lp != e.pid
                    && open.get(&e.pid) == Some(&e.cmd)
                {
                    interleaved = true;
                }
                open.insert(e.pid, e.cmd);
                last = Some(e.pid);
            }
        }
        out.nontrivial = interleaved || inner.crashes > 0 || inner.ioerrs > 0;
        out.trace = inner.log.iter().map(|e| e.render()).collect();
        out.choices = inner.chooser.record.clone();
        drop(inner);
        out.signature = sim.signature();
        out
    }
}

impl RepoSim {
    #[allow(clippy::too_many_lines)]
    fn quiescence(&self, shared: &Arc<Shared>, sim: &Arc<Sim>) {
        let settings = make_settings(5, 80_000_000, 80_000_000, 2001, "+00:00", "");
        let loader = match RepoLoader::init_from_file_system(&settings, &shared.repo_dir, &jj_lib::default_backend_factories::default_backend_factories()) {
            Ok(l) => l,
            Err(e) => {
                shared.model.lock().unwrap().violate("C14", "quiescent_load_failed", "reposim:c14:quiescent_load_failed".into(), err_chain(&e), 0);
                return;
            }
        };
        let mut repo = None;
        for _ in 0..3 {
            match loader.load_at_head().block_on() {
                Ok(r) => {
                    repo = Some(r);
                    if list_op_heads(&shared.repo_dir).len() == 1 {
                        break;
                    }
                }
                Err(e) => {
                    let msg = err_chain(&e);
                    let (inv, key) = if msg.contains("Newly-created commit") && msg.contains("already exists") {
                        ("reconcile_rewrites_commit_twice_in_one_clock_tick", "reposim:reconcile_rewrites_commit_twice_in_one_clock_tick:load")
                    } else {
                        ("quiescent_load_failed", "reposim:c14:quiescent_load_failed")
                    };
                    shared.model.lock().unwrap().violate(
                        "C14",
                        inv,
                        key.into(),
                        format!("load_at_head by a fresh process after all activity stopped failed: {msg}"),
                        0,
                    );
                    return;
                }
            }
        }
        let repo = repo.unwrap();
        let heads = list_op_heads(&shared.repo_dir);
        if heads.len() != 1 {
            shared.model.lock().unwrap().violate(
                "C14",
                "not_single_head_at_quiescence",
                "reposim:c14:not_single_head_at_quiescence".into(),
                format!("{} operation heads remain after a quiescent load_at_head", heads.len()),
                0,
            );
            return;
        }
        let reach = match op_ancestors(shared, &loader, &heads) {
            Ok(r) => r,
            Err(m) => {
                shared.model.lock().unwrap().violate("C14", "head_without_operation", "reposim:c14:head_without_operation".into(),
                    format!("operation {} unreadable at quiescence", &m[..8]), 0);
                return;
            }
        };
        {
            let mut model = shared.model.lock().unwrap();
            let lost: Vec<String> = model.seen_heads.iter().filter(|h| !reach.contains(*h)).cloned().collect();
            if let Some(l) = lost.first() {
                model.violate(
                    "C14",
                    "published_operation_unreachable",
                    "reposim:c14:published_operation_unreachable".into(),
                    format!("final head {} does not descend from published operation {}", &heads[0][..8], &l[..8]),
                    0,
                );
                return;
            }
            model.probe("quiescent_single_head");
        }
        if shared.cfg.heads_focus {
            return;
        }
        // monitors on the final repository
        let mut nums: Vec<usize> = (0..24).map(|i| i * 7919 + 13).collect();
        check_view_c10(shared, sim, repo.as_ref(), "quiescent");
        check_index_c18(shared, sim, repo.as_ref(), "quiescent", &mut nums);
        check_roundtrip(shared, sim, &loader, repo.as_ref(), "quiescent");
        if shared.model.lock().unwrap().restores_written == 0 {
            self.check_c13(shared, &loader, &repo, &reach);
        }
        if shared.cfg.changed_paths {
            check_changed_paths_c22(shared, sim, repo.as_ref(), "quiescent");
            check_files_queries_c22(shared, &repo);
        }
        self.check_c46(shared, &repo, &reach);
        self.check_c16_population(shared);
    }

    /// C16 over the population of a run: the id is a function of the value
    /// and different values never share an id.
    fn check_c16_population(&self, shared: &Arc<Shared>) {
        let mut model = shared.model.lock().unwrap();
        let mut views = model.written_views.clone();
        views.extend(model.raw_views.iter().cloned());
        let mut ops = model.written_ops.clone();
        ops.extend(model.raw_ops.iter().cloned());
        for (i, (id_a, a)) in views.iter().enumerate() {
            for (id_b, b) in views.iter().skip(i + 1) {
                if (id_a == id_b) != (a == b) {
                    model.violate(
                        "C16",
                        "view_id_not_content_address",
                        "reposim:c16:view_id_not_content_address".into(),
                        format!("views {} and {}: ids equal = {}, values equal = {}", short(id_a), short(id_b), id_a == id_b, a == b),
                        0,
                    );
                    return;
                }
            }
        }
        for (i, (id_a, a)) in ops.iter().enumerate() {
            for (id_b, b) in ops.iter().skip(i + 1) {
                if (id_a == id_b) != (a == b) {
                    model.violate(
                        "C16",
                        "operation_id_not_content_address",
                        "reposim:c16:operation_id_not_content_address".into(),
                        format!("operations {} and {}: ids equal = {}, values equal = {}", short(id_a), short(id_b), id_a == id_b, a == b),
                        0,
                    );
                    return;
                }
            }
        }
        if views.len() >= 2 {
            model.probe("c16_population_checked");
        }
    }

    /// C46: walking a visible commit's evolution terminates, lists every
    /// commit it was rewritten from exactly once, each after all of its own
    /// rewrites.
    fn check_c46(&self, shared: &Arc<Shared>, repo: &Arc<ReadonlyRepo>, reach: &BTreeSet<String>) {
        let pairs: Vec<(CommitId, CommitId)> = {
            let model = shared.model.lock().unwrap();
            model
                .txs
                .iter()
                .filter(|t| t.op_id.as_ref().is_some_and(|id| reach.contains(&id.hex())))
                .flat_map(|t| t.rewrite_pairs.iter().cloned())
                .collect()
        };
        let heads: Vec<CommitId> = repo.view().heads().iter().cloned().collect();
        let g = Graph::load(repo.store(), heads.clone());
        let mut visible: Vec<CommitId> = g.ancestors(&heads).into_iter().collect();
        visible.sort();
        for v in visible.iter().take(40) {
            let mut listed: Vec<CommitId> = vec![];
            let mut stream = std::pin::pin!(jj_lib::evolution::walk_predecessors(repo, std::slice::from_ref(v)));
            let mut steps = 0;
            loop {
                steps += 1;
                if steps > 2000 {
                    shared.model.lock().unwrap().violate("C46", "evolution_walk_does_not_terminate", "reposim:c46:no_termination".into(), format!("walk_predecessors({}) yielded more than 2000 entries", short(v)), 0);
                    return;
                }
                match stream.next().block_on() {
                    None => break,
                    Some(Ok(entry)) => listed.push(entry.commit.id().clone()),
                    Some(Err(e)) => {
                        shared.model.lock().unwrap().violate("C46", "evolution_walk_error", "reposim:c46:walk_error".into(), format!("walk_predecessors({}) failed: {e}", short(v)), 0);
                        return;
                    }
                }
            }
            // exactly once
            let uniq: BTreeSet<&CommitId> = listed.iter().collect();
            if uniq.len() != listed.len() {
                shared.model.lock().unwrap().violate("C46", "evolution_entry_listed_twice", "reposim:c46:listed_twice".into(), format!("walk_predecessors({}) lists a commit twice: {:?}", short(v), listed.iter().map(short).collect::<Vec<_>>()), 0);
                return;
            }
            // complete: everything the recorded rewrites say it came from
            let mut want: BTreeSet<CommitId> = BTreeSet::new();
            let mut stack = vec![v.clone()];
            while let Some(c) = stack.pop() {
                for (old, new) in &pairs {
                    if *new == c && want.insert(old.clone()) {
                        stack.push(old.clone());
                    }
                }
            }
            for w in &want {
                if !listed.contains(w) {
                    shared.model.lock().unwrap().violate(
                        "C46",
                        "evolution_predecessor_missing",
                        "reposim:c46:predecessor_missing".into(),
                        format!("walk_predecessors({}) = {:?} does not list {} although a published transaction rewrote it into this line", short(v), listed.iter().map(short).collect::<Vec<_>>(), short(w)),
                        0,
                    );
                    return;
                }
            }
            // sound: everything listed is `v` itself or one of its recorded
            // predecessors - recorded by the model, or in the commit objects
            // (rewrites made by jj's own reconcile operations are only there)
            let mut want2: BTreeSet<CommitId> = BTreeSet::new();
            let mut stack = vec![v.clone()];
            while let Some(c) = stack.pop() {
                if let Ok(commit) = repo.store().get_commit(&c) {
                    for p in &commit.store_commit().predecessors {
                        if want2.insert(p.clone()) {
                            stack.push(p.clone());
                        }
                    }
                }
            }
            for l in &listed {
                if l != v && !want.contains(l) && !want2.contains(l) {
                    shared.model.lock().unwrap().violate(
                        "C46",
                        "evolution_lists_unrelated_commit",
                        "reposim:c46:unrelated_commit".into(),
                        format!("walk_predecessors({}) = {:?} lists {} which is not among its recorded predecessors", short(v), listed.iter().map(short).collect::<Vec<_>>(), short(l)),
                        0,
                    );
                    return;
                }
            }
            if listed.first() != Some(v) {
                shared.model.lock().unwrap().violate("C46", "evolution_does_not_start_at_commit", "reposim:c46:start".into(), format!("walk_predecessors({}) = {:?} does not start with the commit itself", short(v), listed.iter().map(short).collect::<Vec<_>>()), 0);
                return;
            }
            // complete also against the predecessors stored in the commit
            // objects themselves (covers jj's own reconcile rewrites)
            let mut known_gap = false;
            // judge the frontier of what is missing first: a missing commit that
            // a *listed* commit names directly as its predecessor (every gap
            // has one, because the walk starts at `v` itself)
            let direct_preds_of_listed: BTreeSet<CommitId> = listed
                .iter()
                .filter_map(|l| repo.store().get_commit(l).ok())
                .flat_map(|c| c.store_commit().predecessors.clone())
                .collect();
            let mut missing: Vec<&CommitId> = want2.iter().filter(|w| !listed.contains(*w)).collect();
            missing.sort_by_key(|w| !direct_preds_of_listed.contains(*w));
            for w in missing {
                {
                    if std::env::var_os("JJSIM_DEBUG_C46").is_some() {
                        for c in &visible {
                            let cm = repo.store().get_commit(c).unwrap();
                            eprintln!(
                                "C46DEBUG commit {} change {} parents {:?} preds {:?} head={} '{}'",
                                short(c),
                                short(cm.change_id()),
                                cm.parent_ids().iter().map(short).collect::<Vec<_>>(),
                                cm.store_commit().predecessors.iter().map(short).collect::<Vec<_>>(),
                                heads.contains(c),
                                cm.description().trim()
                            );
                        }
                    }
                    // Known finding (known_findings.jsonl): the commit was made
                    // by the *unpublished* transaction that merges the several
                    // closest common ancestors of a criss-cross operation merge;
                    // it leaks into the real merge's view, but the operation
                    // that recorded its predecessors is in nobody's ancestry.
                    // the listed commit whose stored predecessor link is not followed
                    let link: Option<CommitId> = listed
                        .iter()
                        .find(|l| repo.store().get_commit(l).is_ok_and(|c| c.store_commit().predecessors.contains(w)))
                        .cloned();
                    let from_virtual_base = link.as_ref().is_some_and(|l| {
                        let made_by_model = shared.model.lock().unwrap().written_commits.iter().any(|(id, _)| id == l);
                        !made_by_model && Self::unrecorded_and_criss_cross(repo, l)
                    });
                    if from_virtual_base {
                        shared.model.lock().unwrap().violate(
                            "C46",
                            "evolution_of_commit_from_virtual_merge_base_missing",
                            "reposim:c46:commit_from_criss_cross_merge_base_has_no_recorded_evolution".into(),
                            format!("walk_predecessors({}) = {:?} does not list {}: the commit was created while merging the common ancestors of a criss-cross operation merge and no operation in the log records it", short(v), listed.iter().map(short).collect::<Vec<_>>(), short(w)),
                            0,
                        );
                        known_gap = true;
                        break;
                    }
                    shared.model.lock().unwrap().violate(
                        "C46",
                        "evolution_stored_predecessor_missing",
                        "reposim:c46:stored_predecessor_missing".into(),
                        format!("walk_predecessors({}) = {:?} does not list {} which the commit objects record as a (transitive) predecessor", short(v), listed.iter().map(short).collect::<Vec<_>>(), short(w)),
                        0,
                    );
                    return;
                }
            }
            if known_gap {
                continue;
            }
            if want2.len() >= 3 {
                shared.model.lock().unwrap().probe("c46_walk_3plus_predecessors");
            }
            // order: a commit comes after all commits rewritten from it
            for (old, new) in &pairs {
                if let (Some(io), Some(inew)) = (listed.iter().position(|c| c == old), listed.iter().position(|c| c == new))
                    && io < inew
                {
                    shared.model.lock().unwrap().violate("C46", "evolution_order_wrong", "reposim:c46:order".into(), format!("walk_predecessors({}): {} is listed before its rewrite {}", short(v), short(old), short(new)), 0);
                    return;
                }
            }
            if !want.is_empty() {
                shared.model.lock().unwrap().probe("c46_walk_with_predecessors_checked");
            }
        }
        shared.model.lock().unwrap().probe("c46_checked");
    }

    /// True if no operation in the log records `c`'s predecessors although the
    /// log contains a criss-cross merge (a merge operation whose parents have
    /// several closest common ancestors). Such a commit can only have been made
    /// by the unpublished transaction that merged those ancestors (a crashed
    /// reconciler's commits are never referenced by anybody).
    fn unrecorded_and_criss_cross(repo: &Arc<ReadonlyRepo>, c: &CommitId) -> bool {
        let mut criss_cross = false;
        let mut ops = std::pin::pin!(jj_lib::op_walk::walk_ancestors(std::slice::from_ref(repo.operation())));
        while let Some(r) = ops.next().block_on() {
            let Ok(op) = r else { return false };
            if op.predecessors_for_commit(c).is_some() {
                return false;
            }
            let Ok(parents) = op.parents().block_on() else { return false };
            for i in 1..parents.len() {
                if let Ok(cca) = jj_lib::op_walk::closest_common_ancestors(parents[..i].to_vec(), [parents[i].clone()]).block_on()
                    && cca.len() > 1
                {
                    criss_cross = true;
                }
            }
        }
        criss_cross
    }

    /// C13: nothing a published transaction did is lost in the reconciled
    /// repository.
    #[allow(clippy::too_many_lines)]
    fn check_c13(&self, shared: &Arc<Shared>, loader: &RepoLoader, repo: &Arc<ReadonlyRepo>, reach: &BTreeSet<String>) {
        let view = repo.view();
        let heads: Vec<CommitId> = view.heads().iter().cloned().collect();
        let g = Graph::load(repo.store(), heads.clone());
        let visible = g.ancestors(&heads);
        let visible_changes: HashSet<&ChangeId> = visible.iter().map(|c| &g.change[c]).collect();
        let mut model = shared.model.lock().unwrap();
        let published: Vec<TxRec> = model
            .txs
            .iter()
            .filter(|t| t.op_id.as_ref().is_some_and(|id| reach.contains(&id.hex())) && model.seen_heads.contains(&t.op_id.as_ref().unwrap().hex()))
            .cloned()
            .collect();
        if published.len() >= 2 {
            model.probe("c13_two_plus_published_txs");
        }
        // changes any published side abandoned or rewrote (then anything may
        // legitimately happen to commits of that change on other sides)
        let mut touched: HashSet<ChangeId> = HashSet::new();
        let mut touch_count: HashMap<ChangeId, BTreeSet<usize>> = HashMap::new();
        let mut gone_commits: HashMap<CommitId, (usize, ChangeId)> = HashMap::new();
        for t in &published {
            for (old, _, ch) in &t.rewritten {
                touched.insert(ch.clone());
                touch_count.entry(ch.clone()).or_default().insert(t.id);
                gone_commits.insert(old.clone(), (t.id, ch.clone()));
            }
            for (old, ch) in &t.abandoned {
                touched.insert(ch.clone());
                touch_count.entry(ch.clone()).or_default().insert(t.id);
                gone_commits.insert(old.clone(), (t.id, ch.clone()));
            }
            for ch in &t.divergent {
                touched.insert(ch.clone());
                // a divergent rewrite keeps the old commit below its children
                touch_count.entry(ch.clone()).or_default().insert(usize::MAX - t.id);
                touch_count.entry(ch.clone()).or_default().insert(t.id);
            }
        }
        // descendants of abandoned/rewritten commits may be auto-abandoned as
        // empty etc.: only changes nobody else touched are asserted
        // (1) created changes are visible
        for t in &published {
            for (id, ch) in &t.created {
                if touched.contains(ch) {
                    continue;
                }
                // Descendant of something another side abandoned with an
                // "abandon empty" policy could disappear; our transactions
                // write non-empty commits except under heads_focus.
                if !visible_changes.contains(ch) {
                    model.violate(
                        "C13",
                        "created_commit_lost",
                        "reposim:c13:created_commit_lost".into(),
                        format!(
                            "change {} (commit {}) created by published transaction '{}' is not visible in the reconciled repository",
                            short(ch),
                            short(id),
                            t.description
                        ),
                        0,
                    );
                }
            }
        }
        // (2) rewritten / abandoned commits are hidden
        let mut exempt_roots: Vec<CommitId> = published.iter().flat_map(|t| t.divergent_old.iter().cloned()).collect();
        // commits a transaction deliberately built on although they were hidden
        exempt_roots.extend(published.iter().flat_map(|t| t.resurrects.iter().cloned()));
        for (old, (_, ch)) in &gone_commits {
            if touch_count.get(ch).is_some_and(|s| s.len() > 1) {
                exempt_roots.push(old.clone());
            }
        }
        // Concurrent reconcilers may each rebase the same commit, which leaves
        // divergent copies; jj does not rebase children of a divergently
        // rewritten commit, so its old version and ancestors stay visible.
        let mut per_change: HashMap<&ChangeId, usize> = HashMap::new();
        for c in &visible {
            *per_change.entry(&g.change[c]).or_insert(0) += 1;
        }
        for c in &visible {
            if per_change[&g.change[c]] > 1 {
                exempt_roots.push(c.clone());
            }
        }
        // ancestry through the backend, not only through what is visible now:
        // an exempting commit may itself have been abandoned later
        let exempt = Graph::load(repo.store(), exempt_roots.clone()).ancestors(&exempt_roots);
        let never_hidden: HashSet<CommitId> = published.iter().flat_map(|t| t.still_visible_gone.iter().cloned()).collect();
        for (old, (by, ch)) in &gone_commits {
            if exempt.contains(old) || never_hidden.contains(old) {
                model.probe("c13_gone_check_skipped_divergent");
                continue;
            }
            // Rewritten by two sides (or divergently by one): jj records a
            // divergent rewrite and leaves the children on the old commit.
            if touch_count.get(ch).is_some_and(|s| s.len() > 1) {
                model.probe("c13_gone_check_skipped_divergent");
                continue;
            }
            if visible.contains(old) {
                // re-introduced by another side that rewrote something *into*
                // the same commit id cannot happen (ids are content hashes
                // with unique descriptions)
                let t = published.iter().find(|t| t.id == *by).unwrap();
                model.violate(
                    "C13",
                    "rewritten_commit_still_visible",
                    "reposim:c13:rewritten_commit_still_visible".into(),
                    format!(
                        "commit {} was rewritten/abandoned by published transaction '{}' but is visible in the reconciled repository; visible children: {:?}",
                        short(old),
                        t.description,
                        visible
                            .iter()
                            .filter(|c| g.parents[*c].contains(old))
                            .map(|c| format!("{} {:?}", short(c), repo.store().get_commit(c).map(|c| c.description().to_string()).unwrap_or_default()))
                            .collect::<Vec<_>>()
                    ),
                    0,
                );
            }
        }
        // (3) refs
        let op_anc = |a: &OperationId, b: &OperationId| -> bool {
            // is a a strict ancestor of b?
            if a == b {
                return false;
            }
            let mut seen = BTreeSet::new();
            let mut stack = vec![b.hex()];
            while let Some(h) = stack.pop() {
                if !seen.insert(h.clone()) {
                    continue;
                }
                if let Some(ps) = model_parents(&model, &h) {
                    stack.extend(ps);
                }
            }
            seen.contains(&a.hex())
        };
        let abandoned_changes: HashSet<ChangeId> = published
            .iter()
            .flat_map(|t| t.abandoned.iter().map(|(_, c)| c.clone()))
            .collect();
        // changes that exist in several visible copies (recorded divergent
        // rewrites, or concurrent reconcilers rebasing the same commit)
        let mut divergent_changes: HashSet<ChangeId> = published.iter().flat_map(|t| t.divergent.iter().cloned()).collect();
        for c in &visible {
            if per_change[&g.change[c]] > 1 {
                divergent_changes.insert(g.change[c].clone());
            }
        }
        let mut names: BTreeSet<(u8, String)> = BTreeSet::new();
        for t in &published {
            for r in &t.refs {
                let k = match r.kind {
                    RefKind::Bookmark => 0,
                    RefKind::Tag => 1,
                    RefKind::Wc => 2,
                };
                names.insert((k, r.name.clone()));
            }
        }
        let _ = loader;
        let fmt = |v: &RefVal| -> Vec<String> { v.iter().map(|c| c.as_ref().map_or("absent".to_string(), short)).collect() };
        let mut to_report: Vec<(String, String, String)> = vec![];
        for (k, name) in &names {
            let kind_name = ["bookmark", "tag", "workspace"][*k as usize];
            let changes: Vec<(&TxRec, &RefWrite)> = published
                .iter()
                .filter_map(|t| {
                    t.refs
                        .iter()
                        .find(|r| r.name == *name && matches!((&r.kind, k), (RefKind::Bookmark, 0) | (RefKind::Tag, 1) | (RefKind::Wc, 2)))
                        .map(|r| (t, r))
                })
                .collect();
            let final_val: RefVal = match k {
                0 | 1 => {
                    let rn: RefNameBuf = name.as_str().into();
                    let t = if *k == 0 { view.get_local_bookmark(&rn) } else { view.get_local_tag(&rn) };
                    target_val(repo.as_ref(), t)
                }
                _ => {
                    let wn: WorkspaceNameBuf = name.as_str().into();
                    wc_val(repo.as_ref(), view.get_wc_commit_id(&wn))
                }
            };
            // abandoning a target moves refs to other changes: no equality
            // oracle then
            let involves_abandoned = changes
                .iter()
                .flat_map(|(_, r)| r.before.iter().chain(r.after.iter()))
                .chain(final_val.iter())
                .any(|c| c.as_ref().is_some_and(|c| abandoned_changes.contains(c)));
            let involves_divergent = changes
                .iter()
                .flat_map(|(_, r)| r.before.iter().chain(r.after.iter()))
                .chain(final_val.iter())
                .any(|c| c.as_ref().is_some_and(|c| divergent_changes.contains(c)));
            // A target commit that was rewritten, rebased or abandoned at any
            // time moves the refs on it implicitly (also inside jj's own
            // reconcile operations), which jj treats as a change of the ref
            // that conflicts with an explicit move: the equality rules below
            // only apply when every commit involved kept its id.
            let involves_moved_commit = changes
                .iter()
                .flat_map(|(_, r)| r.ids.iter())
                .any(|id| !visible.contains(id));
            if involves_abandoned || involves_divergent || involves_moved_commit {
                model_probe(&mut to_report, "c13_ref_skipped_touched_target");
                continue;
            }
            // are all changes on one line of operation history?
            let mut chain: Vec<&(&TxRec, &RefWrite)> = changes.iter().collect();
            chain.sort_by(|x, y| {
                let (a, b) = (x.0.op_id.as_ref().unwrap(), y.0.op_id.as_ref().unwrap());
                if op_anc(a, b) {
                    std::cmp::Ordering::Less
                } else if op_anc(b, a) {
                    std::cmp::Ordering::Greater
                } else {
                    std::cmp::Ordering::Equal
                }
            });
            let is_chain = changes.iter().all(|(t1, _)| {
                changes.iter().all(|(t2, _)| {
                    t1.id == t2.id
                        || op_anc(t1.op_id.as_ref().unwrap(), t2.op_id.as_ref().unwrap())
                        || op_anc(t2.op_id.as_ref().unwrap(), t1.op_id.as_ref().unwrap())
                })
            });
            if is_chain {
                // R1: only one side ever changed it: the last change stands
                let last = chain
                    .iter()
                    .find(|(t, _)| !changes.iter().any(|(t2, _)| op_anc(t.op_id.as_ref().unwrap(), t2.op_id.as_ref().unwrap())))
                    .unwrap();
                if final_val != last.1.after {
                    to_report.push((
                        "ref_value_lost".to_string(),
                        "reposim:c13:ref_value_lost".to_string(),
                        format!(
                            "{kind_name} {name}: all changes lie on one line of operations, the last one (tx '{}') set it to {:?}, reconciled value is {:?}",
                            last.0.description,
                            fmt(&last.1.after),
                            fmt(&final_val)
                        ),
                    ));
                }
                model_probe(&mut to_report, "c13_ref_chain_checked");
                continue;
            }
            model_probe(&mut to_report, "c13_concurrent_ref_writes");
            // R2: no invented value
            let mut known: RefVal = RefVal::new();
            for (_, r) in &changes {
                known.extend(r.before.iter().cloned());
                known.extend(r.after.iter().cloned());
            }
            if !final_val.iter().all(|c| known.contains(c)) {
                to_report.push((
                    "ref_value_invented".to_string(),
                    "reposim:c13:ref_value_invented".to_string(),
                    format!("{kind_name} {name}: reconciled value {:?} contains a target no transaction gave it ({:?})", fmt(&final_val), fmt(&known)),
                ));
                continue;
            }
            // R3: exactly two sibling transactions changed it
            if let [(ta, ra), (tb, rb)] = changes.as_slice()
                && ta.parent_ops == tb.parent_ops
                && ra.before == rb.before
            {
                model_probe(&mut to_report, "c13_sibling_ref_writes");
                if ra.after == rb.after {
                    if final_val != ra.after {
                        to_report.push((
                            "ref_identical_change_lost".to_string(),
                            "reposim:c13:ref_identical_change_lost".to_string(),
                            format!("{kind_name} {name}: both sides set {:?}, reconciled value {:?}", fmt(&ra.after), fmt(&final_val)),
                        ));
                    }
                    continue;
                }
                if *k == 2 {
                    // working copies are not merged by ancestry: one of the two
                    if final_val != ra.after && final_val != rb.after {
                        to_report.push((
                            "wc_value_invented".to_string(),
                            "reposim:c13:wc_value_invented".to_string(),
                            format!("workspace {name}: sides set {:?} and {:?}, reconciled value {:?}", fmt(&ra.after), fmt(&rb.after), fmt(&final_val)),
                        ));
                    }
                    continue;
                }
                let union: RefVal = ra.after.union(&rb.after).cloned().collect();
                if !final_val.is_subset(&union) {
                    // elements of `before` may legitimately remain only as
                    // removes, never as adds
                    to_report.push((
                        "ref_conflict_with_foreign_value".to_string(),
                        "reposim:c13:ref_conflict_with_foreign_value".to_string(),
                        format!("{kind_name} {name}: sides set {:?} and {:?}, reconciled adds {:?}", fmt(&ra.after), fmt(&rb.after), fmt(&final_val)),
                    ));
                    continue;
                }
                // resolved to exactly one side: only the fast-forward rule allows that
                for (mine, other) in [(&ra.after, &rb.after), (&rb.after, &ra.after)] {
                    if final_val == *mine && final_val != *other {
                        let ff = mine.len() == 1
                            && other.len() == 1
                            && match (mine.iter().next().unwrap(), other.iter().next().unwrap()) {
                                (Some(m), Some(o)) => {
                                    let m_ids: Vec<CommitId> = visible.iter().filter(|c| g.change[*c] == *m).cloned().collect();
                                    let o_ids: Vec<CommitId> = visible.iter().filter(|c| g.change[*c] == *o).cloned().collect();
                                    o_ids.iter().any(|o| m_ids.iter().any(|m| g.is_ancestor(o, m)))
                                }
                                _ => false,
                            };
                        if !ff {
                            to_report.push((
                                "ref_concurrent_write_dropped".to_string(),
                                "reposim:c13:ref_concurrent_write_dropped".to_string(),
                                format!(
                                    "{kind_name} {name}: sibling transactions set it to {:?} and {:?} (from {:?}); reconciled value {:?} keeps one side only although the other is not its ancestor",
                                    fmt(&ra.after),
                                    fmt(&rb.after),
                                    fmt(&ra.before),
                                    fmt(&final_val)
                                ),
                            ));
                        } else {
                            model_probe(&mut to_report, "c13_concurrent_ref_fast_forward");
                        }
                    }
                }
            }
        }
        for (inv, key, msg) in to_report {
            if inv.starts_with("c13_") {
                let name: &'static str = match inv.as_str() {
                    "c13_ref_skipped_touched_target" => "c13_ref_skipped_touched_target",
                    "c13_concurrent_ref_fast_forward" => "c13_concurrent_ref_fast_forward",
                    "c13_ref_chain_checked" => "c13_ref_chain_checked",
                    "c13_sibling_ref_writes" => "c13_sibling_ref_writes",
                    _ => "c13_concurrent_ref_writes",
                };
                model.probe(name);
            } else {
                model.violate("C13", &inv, key, msg, 0);
            }
        }
        model.probe("c13_checked");
    }
}

fn model_parents(model: &Model, hex: &str) -> Option<Vec<String>> {
    model.op_parents.get(hex).cloned()
}

fn model_probe(list: &mut Vec<(String, String, String)>, name: &str) {
    list.push((name.to_string(), String::new(), String::new()));
}

#[allow(dead_code)]
fn unused(_: &RefName, _: &WorkspaceName, _: &Operation) {}

#[allow(dead_code)]
async fn unused2() {
    let _ = futures::stream::iter([1]).next().await;
}
