//! CliSim — command histories through the real `jj` binary (C40 C41 C42).
//!
//! Sequential seeded histories of real `jj` invocations (fixed JJ_* seeds and
//! clocks) in one repository with one or two workspaces, interleaved with
//! user file edits. "Concurrency" enters the way the docs say it does for the
//! CLI: commands run with `--at-op=<older op>` create divergent operations
//! that the next command reconciles; a command in one workspace rewrites the
//! other's working-copy commit and leaves it stale. The harness observes by
//! loading the repository with jj-lib, never by parsing human output.

use std::collections::BTreeMap;
use std::collections::BTreeSet;
use std::collections::HashSet;
use std::path::Path;
use std::path::PathBuf;
use std::sync::Arc;

use jj_lib::backend::CommitId;
use jj_lib::backend::TreeValue;
use jj_lib::object_id::ObjectId as _;
use jj_lib::op_store;
use jj_lib::op_store::OperationId;
use jj_lib::operation::Operation;
use jj_lib::ref_name::RefNameBuf;
use jj_lib::repo::ReadonlyRepo;
use jj_lib::repo::Repo as _;
use jj_lib::repo::RepoLoader;
use jj_lib::repo_path::RepoPathBuf;
use pollster::FutureExt as _;

use crate::core::chooser::Chooser;
use crate::core::runner::Budget;
use crate::core::runner::Engine;
use crate::core::runner::RunOutcome;
use crate::core::runner::Tier;
use crate::engines::crashsim::run_jj;
use crate::engines::crashsim::write_config;

pub struct CliSim;

fn s(x: &str) -> String {
    x.to_string()
}

fn lib_settings() -> jj_lib::settings::UserSettings {
    let text = r#"
user.name = "Sim User"
user.email = "sim.user@example.com"
operation.username = "sim"
operation.hostname = "sim.example.com"
# the harness's own load_at_head reconciles divergent operation heads (after
# --at-op commands); its reconcile operation must not carry the wall clock
debug.randomness-seed = 4242
debug.commit-timestamp = "2001-02-03T04:05:06+07:00"
debug.operation-timestamp = "2001-02-03T04:05:06+07:00"
"#;
    let mut config = jj_lib::config::StackedConfig::with_defaults();
    config.add_layer(jj_lib::config::ConfigLayer::parse(jj_lib::config::ConfigSource::User, text).unwrap());
    jj_lib::settings::UserSettings::from_config(config).unwrap()
}

fn load(ws: &Path) -> Option<(RepoLoader, Arc<ReadonlyRepo>)> {
    let settings = lib_settings();
    // a secondary workspace stores the path of the shared repo in .jj/repo
    let mut repo_dir = ws.join(".jj").join("repo");
    if repo_dir.is_file() {
        let p = std::fs::read_to_string(&repo_dir).ok()?;
        repo_dir = ws.join(".jj").join(p.trim());
    }
    let loader = RepoLoader::init_from_file_system(&settings, &repo_dir, &jj_lib::default_backend_factories::default_backend_factories()).ok()?;
    let repo = loader.load_at_head().block_on().ok()?;
    Some((loader, repo))
}

fn disk_files(ws: &Path) -> BTreeMap<String, Vec<u8>> {
    fn walk(base: &Path, dir: &Path, out: &mut BTreeMap<String, Vec<u8>>) {
        let Ok(rd) = std::fs::read_dir(dir) else { return };
        for e in rd.flatten() {
            let p = e.path();
            let name = e.file_name().to_string_lossy().into_owned();
            if dir == base && (name == ".jj" || name == ".git") {
                continue;
            }
            let Ok(ft) = e.file_type() else { continue };
            if ft.is_dir() {
                walk(base, &p, out);
            } else if ft.is_file()
                && let Ok(b) = std::fs::read(&p)
            {
                out.insert(p.strip_prefix(base).unwrap().to_string_lossy().into_owned(), b);
            }
        }
    }
    let mut out = BTreeMap::new();
    walk(ws, ws, &mut out);
    out
}

/// The part of a view that undo / restore are specified to bring back.
#[derive(Clone, Debug, PartialEq, Eq)]
struct Core {
    heads: BTreeSet<CommitId>,
    bookmarks: BTreeMap<String, op_store::RefTarget>,
    tags: BTreeMap<String, op_store::RefTarget>,
    wcs: BTreeMap<String, CommitId>,
}

fn core_of(view: &op_store::View) -> Core {
    Core {
        heads: view.head_ids.iter().cloned().collect(),
        bookmarks: view.local_bookmarks.iter().map(|(k, v)| (k.as_str().to_string(), v.clone())).collect(),
        tags: view.local_tags.iter().map(|(k, v)| (k.as_str().to_string(), v.clone())).collect(),
        wcs: view.wc_commit_ids.iter().map(|(k, v)| (k.as_str().to_string(), v.clone())).collect(),
    }
}

fn describe_core_diff(a: &Core, b: &Core) -> String {
    let mut d = vec![];
    if a.heads != b.heads {
        d.push(format!("heads {:?} vs {:?}", a.heads.iter().map(|c| c.hex()[..8].to_string()).collect::<Vec<_>>(), b.heads.iter().map(|c| c.hex()[..8].to_string()).collect::<Vec<_>>()));
    }
    if a.bookmarks != b.bookmarks {
        d.push(format!("bookmarks {:?} vs {:?}", a.bookmarks.keys().collect::<Vec<_>>(), b.bookmarks.keys().collect::<Vec<_>>()));
    }
    if a.tags != b.tags {
        d.push("tags differ".to_string());
    }
    if a.wcs != b.wcs {
        d.push(format!("working copies {:?} vs {:?}", a.wcs.iter().map(|(k, v)| format!("{k}={}", &v.hex()[..8])).collect::<Vec<_>>(), b.wcs.iter().map(|(k, v)| format!("{k}={}", &v.hex()[..8])).collect::<Vec<_>>()));
    }
    d.join("; ")
}

fn visible(repo: &Arc<ReadonlyRepo>) -> HashSet<CommitId> {
    let mut seen = HashSet::new();
    let mut stack: Vec<CommitId> = repo.view().heads().iter().cloned().collect();
    while let Some(id) = stack.pop() {
        if !seen.insert(id.clone()) {
            continue;
        }
        if let Ok(c) = repo.store().get_commit(&id) {
            stack.extend(c.parent_ids().iter().cloned());
        }
    }
    seen
}

/// Sets a file's modification time (nanosecond precision), as `touch -d` does.
fn set_mtime(path: &Path, t: std::time::SystemTime) {
    use std::os::unix::ffi::OsStrExt as _;
    let Ok(d) = t.duration_since(std::time::UNIX_EPOCH) else { return };
    let spec = libc::timespec {
        tv_sec: d.as_secs() as libc::time_t,
        tv_nsec: i64::from(d.subsec_nanos()),
    };
    let times = [spec, spec];
    let Ok(c) = std::ffi::CString::new(path.as_os_str().as_bytes()) else { return };
    // SAFETY: plain libc call with a valid NUL-terminated path and two timespecs
    unsafe {
        libc::utimensat(libc::AT_FDCWD, c.as_ptr(), times.as_ptr(), 0);
    }
}

fn ancestors_of(repo: &Arc<ReadonlyRepo>, roots: &[CommitId]) -> HashSet<CommitId> {
    let mut seen = HashSet::new();
    let mut stack: Vec<CommitId> = roots.to_vec();
    while let Some(id) = stack.pop() {
        if !seen.insert(id.clone()) {
            continue;
        }
        if let Ok(c) = repo.store().get_commit(&id) {
            stack.extend(c.parent_ids().iter().cloned());
        }
    }
    seen
}

fn all_ops(loader: &RepoLoader, head: &Operation) -> Vec<Operation> {
    let mut out = vec![];
    let mut seen = BTreeSet::new();
    let mut stack = vec![head.clone()];
    while let Some(op) = stack.pop() {
        if !seen.insert(op.id().hex()) {
            continue;
        }
        for p in op.parent_ids() {
            if let Ok(pop) = loader.load_operation(p).block_on() {
                stack.push(pop);
            }
        }
        out.push(op);
    }
    out
}

/// Is (path, bytes) in the working-copy commit of workspace `ws` in some
/// operation of the log?
fn content_recorded(loader: &RepoLoader, ops: &[Operation], ws_name: &str, path: &str, bytes: &[u8], cache: &mut BTreeMap<String, Vec<jj_lib::merged_tree::MergedTree>>) -> bool {
    let trees = cache.entry(ws_name.to_string()).or_insert_with(|| {
        let mut trees = vec![];
        let mut seen = BTreeSet::new();
        for op in ops {
            if let Ok(view) = op.view().block_on() {
                for (name, id) in view.wc_commit_ids() {
                    if name.as_str() == ws_name
                        && seen.insert(id.hex())
                        && let Ok(c) = loader.store().get_commit(id)
                    {
                        trees.push(c.tree());
                    }
                }
            }
        }
        trees
    });
    let Ok(rp) = RepoPathBuf::from_internal_string(path) else { return true };
    for t in trees.iter() {
        if let Ok(v) = t.path_value(&rp).block_on() {
            if !v.is_resolved() && bytes.windows(7).any(|w| w == b"<<<<<<<") {
                // a materialized conflict is parsed back into the conflict, not
                // stored as marker bytes
                return true;
            }
            for term in v.iter().flatten() {
                if let TreeValue::File { id, .. } = term
                    && let Ok(mut r) = loader.store().read_file(&rp, id).block_on()
                {
                    use futures::AsyncReadExt as _;
                    let mut buf = vec![];
                    if r.read_to_end(&mut buf).block_on().is_ok() && buf == bytes {
                        return true;
                    }
                }
            }
        }
    }
    false
}

#[derive(Clone, Debug, PartialEq, Eq)]
enum Kind {
    Normal,
    Undo,
    Redo,
    Restore,
    Revert,
}

impl Engine for CliSim {
    fn name(&self) -> &'static str {
        "clisim"
    }

    fn properties(&self) -> Vec<&'static str> {
        vec!["C40", "C41", "C42"]
    }

    fn budget(&self, _prop: &str, tier: Tier) -> Budget {
        match tier {
            Tier::Quick => Budget { runs: 64, max_seconds: 100 },
            Tier::Thorough => Budget { runs: 6_000, max_seconds: 1500 },
        }
    }

    fn rule(&self, _prop: &str) -> String {
        "one evaluation = one history of 8-18 real jj commands (new [--insert-before/--insert-after], describe, commit, squash [--from/--into], abandon, \
         rebase -r/-s/-b, edit, duplicate, metaedit, parallelize, simplify-parents, split <file>, absorb, file chmod, restore [--from/--into], bookmark set/delete, \
         tag set, undo, redo, op restore, workspace add / update-stale, --at-op commands, --ignore-working-copy commands) in one repository with up to two \
         workspaces, interleaved with file edits; distinct = distinct command-kind sequence hash; non-trivial = the history contains a command at an \
         older operation, a stale workspace, an undo/redo/op restore, or a command refused for immutability"
            .to_string()
    }

    fn components_real(&self) -> Vec<&'static str> {
        vec!["the unguarded jj binary (all commands, snapshotting, stale-workspace handling, undo stack, immutability checks)", "git backend via gix (non-colocated)", "jj-lib (oracle reads of operation log, views, trees)", "tmpfs"]
    }

    fn components_stub(&self) -> Vec<&'static str> {
        vec!["user and clock: file edits between commands, JJ_TIMESTAMP / JJ_OP_TIMESTAMP / JJ_RANDOMNESS_SEED per command"]
    }

    fn assumptions(&self, prop: &str) -> Vec<String> {
        match prop {
            "C41" => vec![
                "undo/redo sequences never rewind past the start of the current run of ordinary commands (the documented undo stack is only judged there)".to_string(),
                "no file edits immediately before undo / redo / op restore, so no snapshot operation gets between".to_string(),
            ],
            "C42" => vec!["immutable set = ancestors of bookmark `trunk` and of tags (configured through revset-aliases.immutable_heads()); bookmark/tag moves and op-log commands are not judged".to_string()],
            _ => vec!["only snapshot-eligible files (small, not ignored) are generated".to_string()],
        }
    }

    fn fault_kinds(&self) -> Vec<&'static str> {
        vec!["command_at_older_operation", "stale_workspace", "ignore_working_copy", "undo_redo", "op_restore", "op_revert", "refused_immutable"]
    }

    #[allow(clippy::too_many_lines)]
    fn run(&self, prop: &str, mut ch: Chooser, scratch: &Path) -> RunOutcome {
        let mut out = RunOutcome::default();
        let scratch = std::fs::canonicalize(scratch).unwrap();
        write_config(&scratch);
        // which refs make commits immutable: 0 trunk|tags, 1 tags only, 2 trunk only
        let immut_variant = ch.choose(3);
        let (trunk_protects, tags_protect) = [(true, true), (false, true), (true, false)][immut_variant];
        let immut = match prop {
            "C41" => false,
            "C42" => true,
            _ => ch.chance(1, 2),
        };
        {
            use std::io::Write as _;
            let mut f = std::fs::OpenOptions::new().append(true).open(scratch.join("config.toml")).unwrap();
            if immut {
                writeln!(f, "[revset-aliases]\n\"immutable_heads()\" = \"{}\"", ["present(bookmarks(exact:trunk)) | tags()", "tags()", "present(bookmarks(exact:trunk))"][immut_variant]).unwrap();
            } else {
                writeln!(f, "[revset-aliases]\n\"immutable_heads()\" = \"none()\"").unwrap();
            }
        }
        out.config = format!("immutable_heads={}", if immut { ["trunk|tags", "tags", "trunk"][immut_variant] } else { "none" });
        let ws1 = scratch.join("ws");
        let ws2 = scratch.join("ws2");
        let mut num = 10u64;
        let mut jj = |args: &[String], cwd: &Path| -> (bool, String) {
            num += 1;
            match run_jj(&scratch, cwd, num, args) {
                Ok(o) => (o.status.success(), format!("{}{}", String::from_utf8_lossy(&o.stdout), String::from_utf8_lossy(&o.stderr))),
                Err(e) => (false, e.to_string()),
            }
        };
        let (ok, msg) = jj(&[s("git"), s("init"), s("--no-colocate"), s("ws")], &scratch);
        if !ok {
            out.harness_error = Some(format!("jj git init failed: {msg}"));
            return out;
        }
        let mut have_ws2 = false;
        let files = ["a.txt", "b.txt", "dir/c.txt"];
        let mut trace: Vec<String> = vec![];
        let mut seq = 0u64;
        macro_rules! note {
            ($($a:tt)*) => {{ seq += 1; trace.push(format!("{:04} {}", seq, format!($($a)*))); }};
        }
        // C41 bookkeeping
        // number of operations the plain commands of the current segment added
        // (all on one line of history), and the head when the undos started
        let mut segment_ops = 0usize;
        let mut anchor: Option<Operation> = None;
        let mut undone = 0usize;
        let mut kinds: Vec<u8> = vec![];
        let mut nontrivial = false;
        let mut older_ops: Vec<String> = vec![];
        let steps = ch.range(8, 18);
        if prop == "C42" {
            // some protected history to begin with
            for i in 0..ch.range(1, 3) {
                std::fs::write(ws1.join("a.txt"), format!("base {i}\n")).unwrap();
                jj(&[s("commit"), s("-m"), format!("base {i}")], &ws1);
            }
            jj(&[s("bookmark"), s("set"), s("trunk"), s("-r"), s(["@-", "@--"][ch.choose(2)]), s("--allow-backwards")], &ws1);
            if ch.chance(1, 2) {
                jj(&[s("tag"), s("set"), s("v0"), s("-r"), s(["@-", "@--"][ch.choose(2)])], &ws1);
            }
            note!("setup: protected history with bookmark trunk (and maybe tag v0)");
        }
        for step in 0..steps {
            // --- which workspace
            let in_ws2 = have_ws2 && ch.chance(if prop == "C40" { 3 } else { 2 }, 6);
            let cwd: PathBuf = if in_ws2 { ws2.clone() } else { ws1.clone() };
            let ws_name = if in_ws2 { "ws2" } else { "default" };
            let Some((_, repo_before)) = load(&ws1) else {
                out.violate(prop, "repo_unloadable", "clisim:repo_unloadable".into(), "jj-lib cannot load the repository at head".to_string(), seq);
                break;
            };
            let vis: Vec<CommitId> = {
                let mut v: Vec<CommitId> = visible(&repo_before).into_iter().collect();
                v.sort();
                v
            };
            // bias towards the protected commits when immutability is judged
            let protected: Vec<CommitId> = if immut {
                let mut roots: Vec<CommitId> = vec![];
                let rn: RefNameBuf = "trunk".into();
                if trunk_protects {
                    roots.extend(repo_before.view().get_local_bookmark(&rn).added_ids().cloned());
                }
                if tags_protect {
                    for (_, t) in repo_before.view().local_tags() {
                        roots.extend(t.added_ids().cloned());
                    }
                }
                let mut v: Vec<CommitId> = ancestors_of(&repo_before, &roots).into_iter().filter(|c| c != repo_before.store().root_commit_id()).collect();
                v.sort();
                v
            } else {
                vec![]
            };
            let pick_rev = |ch: &mut Chooser| -> String {
                if prop == "C42" && !protected.is_empty() && ch.chance(1, 2) {
                    protected[ch.choose(protected.len())].hex()
                } else {
                    vis[ch.choose(vis.len())].hex()
                }
            };
            // --- choose the command
            // per-property focus: C41 histories change refs and walk the operation
            // log more often, C40 histories get their second workspace early
            let mut weights = [5usize, 3, 3, 2, 2, 2, 2, 3, 1, 1, 3, 2, 1, 1, 1, 1, 1, 1, 1, 1, 1, 1, 1, 1, 1, 1, 1, 1, 1, 1, 0];
            if prop == "C42" && tags_protect && !in_ws2 && have_ws2 {
                weights[30] = 4;
            }
            if prop == "C42" && !have_ws2 {
                weights[13] = if step < 4 { 8 } else { 2 };
            }
            match prop {
                "C41" => {
                    for k in [7, 10, 11, 12, 28, 29] {
                        weights[k] *= 3;
                    }
                }
                "C40" => {
                    weights[13] = if step < 3 { 12 } else { 2 };
                }
                _ => {}
            }
            let k = ch.weighted(&weights);
            kinds.push(k as u8);
            let mut kind = Kind::Normal;
            let mut judged_immutable = true;
            let mut ignore_wc = false;
            let mut at_op: Option<String> = None;
            let mut args: Vec<String> = match k {
                0 => vec![s("new"), s("-m"), format!("new {step}")],
                1 => vec![s("describe"), s("-m"), format!("desc {step}")],
                2 => vec![s("commit"), s("-m"), format!("commit {step}")],
                3 => vec![s("describe"), s("-r"), pick_rev(&mut ch), s("-m"), format!("desc-r {step}")],
                4 => vec![s("abandon"), pick_rev(&mut ch)],
                5 => vec![s("rebase"), s("-r"), pick_rev(&mut ch), s("-d"), pick_rev(&mut ch)],
                6 => vec![s("squash"), s("--from"), pick_rev(&mut ch), s("--into"), pick_rev(&mut ch), s("-u")],
                7 => {
                    judged_immutable = false;
                    let name = ["trunk", "feat"][ch.choose(2)];
                    if ch.chance(1, 6) {
                        vec![s("bookmark"), s("delete"), s(name)]
                    } else {
                        vec![s("bookmark"), s("set"), s(name), s("-r"), pick_rev(&mut ch), s("--allow-backwards")]
                    }
                }
                8 => vec![s("edit"), pick_rev(&mut ch)],
                9 => vec![s("new"), pick_rev(&mut ch), s("-m"), format!("new-on {step}")],
                10 => {
                    judged_immutable = false;
                    if undone < segment_ops {
                        kind = Kind::Undo;
                        vec![s("undo")]
                    } else if undone > 0 {
                        kind = Kind::Redo;
                        vec![s("redo")]
                    } else {
                        vec![s("status")]
                    }
                }
                11 => {
                    judged_immutable = false;
                    if undone > 0 {
                        kind = Kind::Redo;
                        vec![s("redo")]
                    } else {
                        vec![s("log"), s("-r"), s("@"), s("--no-graph")]
                    }
                }
                12 => {
                    judged_immutable = false;
                    if let Some(op) = older_ops.get(ch.choose(older_ops.len().max(1))).cloned() {
                        kind = Kind::Restore;
                        vec![s("op"), s("restore"), op]
                    } else {
                        vec![s("status")]
                    }
                }
                13 if !have_ws2 => {
                    have_ws2 = true;
                    judged_immutable = false;
                    vec![s("workspace"), s("add"), s("../ws2")]
                }
                14 => vec![s("restore")],
                16 => vec![s("rebase"), s("-s"), pick_rev(&mut ch), s("-d"), pick_rev(&mut ch)],
                17 => vec![s("rebase"), s("-b"), pick_rev(&mut ch), s("-d"), pick_rev(&mut ch)],
                18 => vec![s("new"), s("--insert-before"), pick_rev(&mut ch), s("-m"), format!("inserted before {step}")],
                19 => vec![s("new"), s("--insert-after"), pick_rev(&mut ch), s("-m"), format!("inserted after {step}")],
                20 => vec![s("metaedit"), pick_rev(&mut ch), s(["--update-author-timestamp", "--update-change-id", "--force-rewrite"][ch.choose(3)])],
                21 => vec![s("parallelize"), format!("{}::{}", pick_rev(&mut ch), pick_rev(&mut ch))],
                22 => vec![s("simplify-parents"), s("-r"), pick_rev(&mut ch)],
                23 => vec![s("split"), s("-r"), pick_rev(&mut ch), s(files[ch.choose(files.len())]), s("-m"), format!("split {step}")],
                24 => vec![s("absorb")],
                25 => vec![s("file"), s("chmod"), s(["x", "n"][ch.choose(2)]), s(files[ch.choose(files.len())]), s("-r"), pick_rev(&mut ch)],
                26 => vec![s("squash"), s("-u")],
                27 => vec![s("restore"), s("--from"), pick_rev(&mut ch), s("--into"), pick_rev(&mut ch)],
                28 => {
                    // moves the immutable set itself (tags() is part of immutable_heads())
                    judged_immutable = false;
                    vec![s("tag"), s("set"), format!("v{}", ch.choose(2)), s("-r"), pick_rev(&mut ch), s("--allow-move")]
                }
                30 => {
                    // A tag on a *hidden* commit: the working-copy commit gets a
                    // child, the child is abandoned, and a tag is then set on the
                    // abandoned commit by its id. The working-copy commit is now an
                    // ancestor of an immutable head although it has no visible
                    // descendant - later snapshots must not rewrite it.
                    judged_immutable = false;
                    jj(&[s("new"), s("-m"), format!("to be hidden {step}")], &cwd);
                    let (_, out_id) = jj(&[s("log"), s("--no-graph"), s("-r"), s("@"), s("-T"), s("commit_id"), s("--ignore-working-copy")], &cwd);
                    let hidden_id: String = out_id.chars().filter(char::is_ascii_hexdigit).take(40).collect();
                    jj(&[s("edit"), s("@-")], &cwd);
                    jj(&[s("abandon"), hidden_id.clone()], &cwd);
                    // the tag is set from the *other* workspace: a command that makes
                    // its own working-copy commit immutable moves @ to a new child
                    // right away, but it leaves other workspaces where they are
                    let (tag_ok, _) = jj(&[s("tag"), s("set"), format!("vh{}", ch.choose(2)), s("-r"), hidden_id.clone(), s("--allow-move")], &ws2);
                    note!("setup: {ws_name}: new child {} of @, edit @-, abandon the child; from ws2: tag set on the hidden child -> {}", &hidden_id[..hidden_id.len().min(12)], if tag_ok { "ok" } else { "failed" });
                    out.probe("c42_tag_on_hidden_descendant_of_wc", 1);
                    vec![s("log"), s("-r"), s("@"), s("--no-graph"), s("--ignore-working-copy")]
                }
                29 => {
                    // revert the latest operation: judged like an undo of it
                    judged_immutable = false;
                    kind = Kind::Revert;
                    vec![s("op"), s("revert"), s("@")]
                }
                _ => vec![s("duplicate"), pick_rev(&mut ch)],
            };
            if kind == Kind::Normal && ch.chance(1, 10) && !older_ops.is_empty() && !matches!(k, 13) {
                // run at an older operation: creates a divergent operation
                let op = older_ops[ch.choose(older_ops.len())].clone();
                at_op = Some(op.clone());
                args = vec![s("--at-op"), op, s("new"), s("root()"), s("-m"), format!("at-op {step}")];
                out.fault("command_at_older_operation", 1);
                nontrivial = true;
            } else if kind == Kind::Normal && ch.chance(1, 12) {
                ignore_wc = true;
                args.insert(0, s("--ignore-working-copy"));
                out.fault("ignore_working_copy", 1);
            }
            // --- user edits before ordinary commands
            if kind == Kind::Normal {
                for _ in 0..ch.range(0, 2) {
                    let f = files[ch.choose(files.len())];
                    let p = cwd.join(f);
                    if ch.chance(1, 6) {
                        let _ = std::fs::remove_file(&p);
                        note!("user deletes {ws_name}:{f}");
                    } else {
                        let _ = std::fs::create_dir_all(p.parent().unwrap());
                        let content = format!("content {step}.{}\n", ch.choose(1000));
                        std::fs::write(&p, &content).unwrap();
                        note!("user writes {ws_name}:{f}");
                    }
                }
            }
            // --- observe before
            let disk_before = disk_files(&cwd);
            let immutable_before: HashSet<CommitId> = if immut {
                let mut roots: Vec<CommitId> = vec![];
                let rn: RefNameBuf = "trunk".into();
                if trunk_protects {
                    roots.extend(repo_before.view().get_local_bookmark(&rn).added_ids().cloned());
                }
                if tags_protect {
                    for (_, t) in repo_before.view().local_tags() {
                        roots.extend(t.added_ids().cloned());
                    }
                }
                let mut set = ancestors_of(&repo_before, &roots);
                set.remove(repo_before.store().root_commit_id());
                // a tag may name a commit that is already hidden (a commit id
                // given on the command line resolves even when the commit was
                // rewritten by the command's own snapshot): only commits visible
                // before the command can be hidden by it
                let vis_before = visible(&repo_before);
                set.retain(|c| vis_before.contains(c));
                set
            } else {
                HashSet::new()
            };
            let head_before = repo_before.op_id().hex();
            let has_wc_commit_before = {
                let wsn: jj_lib::ref_name::WorkspaceNameBuf = ws_name.into();
                repo_before.view().get_wc_commit_id(&wsn).is_some()
            };
            // --- run
            let (ok, msg) = jj(&args, &cwd);
            let first_line = msg.lines().find(|l| !l.trim().is_empty()).unwrap_or("").to_string();
            // a panic message of the binary carries its thread id: not part of the log
            let first_line = if first_line.contains("panicked at") {
                out.probe("jj_binary_panicked", 1);
                let mut t = String::new();
                let mut in_paren_digits = false;
                for (i, c) in first_line.char_indices() {
                    if c == '(' && first_line[i + 1..].chars().next().is_some_and(|d| d.is_ascii_digit()) {
                        in_paren_digits = true;
                        t.push_str("(tid");
                    } else if in_paren_digits && c.is_ascii_digit() {
                    } else {
                        in_paren_digits = false;
                        t.push(c);
                    }
                }
                t
            } else {
                first_line
            };
            note!("jj[{ws_name}] {} -> {} | {}", args.join(" "), if ok { "ok" } else { "failed" }, &first_line[..first_line.len().min(120)]);
            let recovered_stale = msg.contains("stale");
            if recovered_stale {
                out.fault("stale_workspace", 1);
                nontrivial = true;
                // bring the workspace up to date, as a user would
                let (ok2, m2) = jj(&[s("workspace"), s("update-stale")], &cwd);
                note!("jj[{ws_name}] workspace update-stale -> {} | {}", if ok2 { "ok" } else { "failed" }, m2.lines().next().unwrap_or(""));
            }
            if !ok && msg.contains("immutable") {
                out.fault("refused_immutable", 1);
                nontrivial = true;
            }
            let Some((loader, repo_after)) = load(&ws1) else {
                out.violate(prop, "repo_unloadable", "clisim:repo_unloadable".into(), format!("jj-lib cannot load the repository after `jj {}`", args.join(" ")), seq);
                break;
            };
            older_ops.push(head_before);
            // --- C40: what was on disk when a snapshotting command started is
            // afterwards recorded in the log, or still on disk
            if !ignore_wc && at_op.is_none() {
                let ops = all_ops(&loader, repo_after.operation());
                let disk_now = disk_files(&cwd);
                let mut cache = BTreeMap::new();
                for (p, b) in &disk_before {
                    // A command that failed (refused in a stale workspace, bad
                    // revision, immutable target) may not have snapshotted at all:
                    // then the content only has to be still on disk. A command
                    // that succeeded has snapshotted first, so the content must
                    // be in a recorded working-copy commit even if it is also
                    // still on disk - that is what "can be recovered from the
                    // operation log" means.
                    // (a workspace without a working-copy commit - after an undo or
                    // op restore reaching back before it was added - is not
                    // snapshotted either: "No working copy")
                    if (!ok || !has_wc_commit_before) && disk_now.get(p) == Some(b) {
                        continue;
                    }
                    if !content_recorded(&loader, &ops, ws_name, p, b, &mut cache) {
                        // Known finding (known_findings.jsonl): a workspace whose
                        // working-copy commit was removed from the view (op restore /
                        // undo from another workspace reaching back before it was
                        // added) is not snapshotted ("No working copy"); a command
                        // that then gives it a working-copy commit checks that
                        // commit out over the stale tree state and deletes or
                        // overwrites edits made since the last snapshot.
                        let (inv, key) = if !has_wc_commit_before && ok {
                            ("content_lost_in_workspace_without_working_copy_commit", "clisim:c40:workspace_without_wc_commit_checked_out_without_snapshot")
                        } else {
                            ("working_copy_content_lost", "clisim:working_copy_content_lost")
                        };
                        out.violate(
                            "C40",
                            inv,
                            key.into(),
                            format!(
                                "file {ws_name}:{p} ({:?}) was on disk when `jj {}` started ({}); afterwards it is not in any working-copy commit of that workspace recorded in the operation log{}",
                                String::from_utf8_lossy(b).trim(),
                                args.join(" "),
                                if ok { "the command succeeded" } else { "the command failed" },
                                if ok { "" } else { " and no longer on disk" }
                            ),
                            seq,
                        );
                        break;
                    }
                }
                out.probe("c40_commands_judged", 1);
            }
            // --- C42
            if immut && judged_immutable && at_op.is_none() {
                let vis_after = visible(&repo_after);
                if let Some(lost) = immutable_before.iter().find(|c| !vis_after.contains(*c)) {
                    // Known finding (known_findings.jsonl): `jj workspace update-stale`
                    // snapshots the stale working copy as of the *older* operation it
                    // was last updated to; a commit made immutable since then (from
                    // another workspace) is amended by that snapshot and the merge of
                    // the two operations keeps the rewrite.
                    let (inv, key) = if recovered_stale {
                        ("immutable_commit_rewritten_by_stale_workspace_snapshot", "clisim:c42:stale_workspace_snapshot_rewrites_commit_made_immutable_since")
                    } else {
                        ("immutable_commit_rewritten", "clisim:immutable_commit_rewritten")
                    };
                    out.violate(
                        "C42",
                        inv,
                        key.into(),
                        format!("commit {} was immutable (ancestor of trunk/tags) before `jj {}` and is no longer visible after it", &lost.hex()[..12], args.join(" ")),
                        seq,
                    );
                }
                out.probe("c42_commands_judged", 1);
            }
            // --- C41
            let core_after = core_of(repo_after.view().store_view());
            // the state after `undone` net undos: the `undone`-th ancestor of the
            // operation that was the head when the undos started
            let expected_core = |anchor: &Option<Operation>, undone: usize| -> Option<Core> {
                let mut op = anchor.clone()?;
                for _ in 0..undone {
                    let parents = op.parents().block_on().ok()?;
                    if parents.len() != 1 {
                        return None;
                    }
                    op = parents[0].clone();
                }
                Some(core_of(op.view().block_on().ok()?.store_view()))
            };
            // operations this step added: reachable from the new head, not from the old
            let new_ops = {
                let before: HashSet<String> = all_ops(&loader, repo_before.operation()).iter().map(|o| o.id().hex()).collect();
                all_ops(&loader, repo_after.operation()).iter().filter(|o| !before.contains(&o.id().hex())).count()
            };
            // did the command's operation land directly on the operation that was
            // the head before it (no snapshot or reconcile operation in between)?
            let directly_on_head_before = repo_after
                .operation()
                .parents()
                .block_on()
                .is_ok_and(|ps| ps.len() == 1 && ps[0].id() == repo_before.op_id());
            match kind {
                Kind::Normal if new_ops == 0 => {
                    // nothing was added to the operation log (a failed command, a
                    // status without changes): an undo chain in progress continues
                }
                Kind::Normal => {
                    // an ordinary operation ends any undo chain
                    let chain_was_active = undone > 0 || anchor.is_some();
                    undone = 0;
                    anchor = None;
                    if at_op.is_some() || !ok || ignore_wc || in_ws2 || chain_was_active {
                        // the undo stack is only judged over plain successful
                        // commands in the default workspace
                        segment_ops = 0;
                        if ok && at_op.is_none() && !ignore_wc && !in_ws2 {
                            segment_ops = new_ops;
                        }
                    } else {
                        segment_ops += new_ops;
                    }
                }
                Kind::Undo => {
                    out.fault("undo_redo", 1);
                    nontrivial = true;
                    if ok && !directly_on_head_before {
                        // a snapshot operation got between (edits that no earlier
                        // command had snapshotted): the command undid something
                        // else than the model assumes; not judged
                        segment_ops = 0;
                        undone = 0;
                        anchor = None;
                    } else if ok {
                        // the anchor is the head when the first undo of this chain
                        // ran; it stays while undos and redos alternate
                        if anchor.is_none() {
                            anchor = Some(repo_before.operation().clone());
                        }
                        undone += 1;
                        match expected_core(&anchor, undone) {
                            Some(want) if core_after != want => {
                                out.violate("C41", "undo_did_not_restore_previous_state", "clisim:undo_did_not_restore_previous_state".into(), format!("after undo #{undone}: {}", describe_core_diff(&core_after, &want)), seq);
                            }
                            Some(_) => out.probe("undo_checked", 1),
                            None => {}
                        }
                    } else {
                        segment_ops = 0;
                        undone = 0;
                        anchor = None;
                    }
                }
                Kind::Redo => {
                    out.fault("undo_redo", 1);
                    if ok && undone > 0 && directly_on_head_before {
                        undone -= 1;
                        match expected_core(&anchor, undone) {
                            Some(want) if core_after != want => {
                                out.violate("C41", "redo_did_not_reinstate_state", "clisim:redo_did_not_reinstate_state".into(), format!("after redo (still undone: {undone}): {}", describe_core_diff(&core_after, &want)), seq);
                            }
                            Some(_) => out.probe("redo_checked", 1),
                            None => {}
                        }
                    } else {
                        segment_ops = 0;
                        undone = 0;
                        anchor = None;
                    }
                }
                Kind::Revert => {
                    out.fault("op_revert", 1);
                    nontrivial = true;
                    // the new head must be a child of the operation that was the
                    // head (no snapshot got between) and that operation must have
                    // one parent; then the state equals that parent's
                    if ok
                        && let Ok(parents) = repo_after.operation().parents().block_on()
                        && parents.len() == 1
                        && parents[0].id() == repo_before.op_id()
                        && let Ok(grand) = parents[0].parents().block_on()
                        && grand.len() == 1
                        && let Ok(view) = grand[0].view().block_on()
                    {
                        let want = core_of(view.store_view());
                        if core_after != want {
                            out.violate("C41", "op_revert_of_latest_did_not_restore_previous_state", "clisim:op_revert_of_latest_did_not_restore_previous_state".into(), format!("after op revert @: {}", describe_core_diff(&core_after, &want)), seq);
                        } else {
                            out.probe("op_revert_checked", 1);
                        }
                    }
                    segment_ops = 0;
                    undone = 0;
                    anchor = None;
                }
                Kind::Restore => {
                    out.fault("op_restore", 1);
                    nontrivial = true;
                    if ok {
                        let target = args[2].clone();
                        if let Some(id) = OperationId::try_from_hex(&target)
                            && let Ok(op) = loader.load_operation(&id).block_on()
                            && let Ok(view) = op.view().block_on()
                        {
                            let want = core_of(view.store_view());
                            if core_after != want {
                                out.violate("C41", "op_restore_differs_from_target", "clisim:op_restore_differs_from_target".into(), format!("after op restore {}: {}", &target[..12], describe_core_diff(&core_after, &want)), seq);
                            } else {
                                out.probe("op_restore_checked", 1);
                            }
                        }
                    }
                    segment_ops = 0;
                    undone = 0;
                    anchor = None;
                }
            }
            if !out.violations.is_empty() {
                break;
            }
        }
        out.events = seq;
        out.trace = trace;
        out.nontrivial = nontrivial;
        let mut h: u64 = 0xcbf2_9ce4_8422_2325;
        for k in &kinds {
            h ^= u64::from(*k);
            h = h.wrapping_mul(0x100_0000_01b3);
        }
        out.signature = h;
        out.choices = ch.record.clone();
        out
    }
}
