//! CrashSim — SIGKILL at every write syscall of the real `jj` binary (C15).
//!
//! Enumerates, for each command of each seeded workload, every kill point of
//! the process (entry of each file-system-mutating syscall, all threads, one
//! global counter), plus a torn-write variant, and runs a recovery oracle in
//! fresh processes after each kill.

use std::collections::BTreeMap;
use std::collections::BTreeSet;
use std::path::Path;
use std::path::PathBuf;
use std::process::Command;
use std::time::Instant;

use jj_lib::object_id::ObjectId as _;
use jj_lib::op_store::OperationId;
use jj_lib::repo::Repo as _;
use jj_lib::repo::RepoLoader;
use pollster::FutureExt as _;
use serde_json::Value;
use serde_json::json;

use crate::core::chooser::Chooser;
use crate::core::chooser::derive_seed;
use crate::core::runner;
use crate::core::runner::Tier;
use crate::ptrace::KillMode;
use crate::ptrace::TraceSpec;
use crate::ptrace::run_traced;

pub fn jj_binary() -> PathBuf {
    std::env::var_os("JJ_BIN")
        .map(PathBuf::from)
        .unwrap_or_else(|| runner::verif_dir().join("target/jjbin/debug/jj"))
}

#[derive(Clone, Debug)]
pub struct Step {
    /// files to write (relative path, content) / delete before the command
    pub edits: Vec<(String, Option<String>)>,
    pub args: Vec<String>,
    /// directory (relative to the sandbox) the command runs in
    pub cwd: String,
}

#[derive(Clone, Debug)]
pub struct Workload {
    pub backend: &'static str, // "git", "git-colocated", "simple"
    pub steps: Vec<Step>,
}

pub fn jj_env(sandbox: &Path, command_number: u64) -> Vec<(String, String)> {
    let ts = 1_000_000_000 + command_number * 7;
    let secs = ts % 60;
    let mins = (ts / 60) % 60;
    let hours = (ts / 3600) % 24;
    let stamp = format!("2001-02-03T{hours:02}:{mins:02}:{secs:02}+07:00");
    vec![
        ("PATH".into(), "/usr/local/bin:/usr/bin:/bin".into()),
        ("HOME".into(), sandbox.join("home").to_string_lossy().into_owned()),
        ("JJ_CONFIG".into(), sandbox.join("config.toml").to_string_lossy().into_owned()),
        ("JJ_USER".into(), "Sim User".into()),
        ("JJ_EMAIL".into(), "sim.user@example.com".into()),
        ("JJ_OP_HOSTNAME".into(), "sim.example.com".into()),
        ("JJ_OP_USERNAME".into(), "sim".into()),
        ("JJ_TZ_OFFSET_MINS".into(), "420".into()),
        ("JJ_RANDOMNESS_SEED".into(), command_number.to_string()),
        ("JJ_TIMESTAMP".into(), stamp.clone()),
        ("JJ_OP_TIMESTAMP".into(), stamp),
        ("RAYON_NUM_THREADS".into(), "1".into()),
        ("NO_COLOR".into(), "1".into()),
        ("TZ".into(), "UTC".into()),
        ("GIT_CONFIG_SYSTEM".into(), "/dev/null".into()),
        ("GIT_CONFIG_GLOBAL".into(), "/dev/null".into()),
        ("COLUMNS".into(), "100".into()),
        ("RUST_BACKTRACE".into(), "0".into()),
    ]
}

pub fn write_config(sandbox: &Path) {
    std::fs::create_dir_all(sandbox.join("home")).unwrap();
    std::fs::write(
        sandbox.join("config.toml"),
        r#"
[ui]
editor = "true"
paginate = "never"
color = "never"
[user]
name = "Sim User"
email = "sim.user@example.com"
"#,
    )
    .unwrap();
}

pub fn run_jj(sandbox: &Path, cwd: &Path, number: u64, args: &[String]) -> std::io::Result<std::process::Output> {
    Command::new(jj_binary())
        .args(args)
        .current_dir(cwd)
        .env_clear()
        .envs(jj_env(sandbox, number))
        .stdin(std::process::Stdio::null())
        .output()
}

fn s(x: &str) -> String {
    x.to_string()
}

pub fn gen_workload(ch: &mut Chooser) -> Workload {
    let backend = ["git", "git-colocated", "simple"][ch.weighted(&[3, 2, 2])];
    let n = ch.range(3, 6);
    let mut steps = vec![];
    let files = ["a.txt", "b.txt", "dir/c.txt", "dir/sub/d.txt"];
    let mut have_ws2 = false;
    // `undo` and `op restore` must never unwind the creation of the workspace
    // itself ("Nothing checked out in this workspace" would then be the
    // fault-free outcome, not a crash effect): `undo` only directly after a
    // command that certainly published an operation, `op restore @--` only
    // when two such operations exist.
    let mut certain_ops = 0usize;
    let mut prev_certain = false;
    for i in 0..n {
        let mut edits = vec![];
        for _ in 0..ch.range(0, 2) {
            let f = files[ch.choose(files.len())];
            if ch.chance(1, 6) {
                edits.push((s(f), None));
            } else {
                edits.push((s(f), Some(format!("content {i}.{}\n", ch.choose(1000)))));
            }
        }
        let mut k = ch.weighted(&[4, 3, 3, 2, 2, 2, 2, 2, 1, 2, 1, 1, 1, 1, 1, 1, 1, 1]);
        if (k == 7 && !prev_certain) || (k == 13 && certain_ops < 2) {
            k = 0;
        }
        prev_certain = matches!(k, 0 | 1 | 2 | 9 | 12);
        if prev_certain || k == 7 || k == 13 {
            certain_ops += 1;
        }
        let args: Vec<String> = match k {
            0 => vec![s("new"), s("-m"), format!("new {i}")],
            1 => vec![s("describe"), s("-m"), format!("desc {i}")],
            2 => vec![s("commit"), s("-m"), format!("commit {i}")],
            3 => vec![s("squash"), s("--use-destination-message")],
            4 => vec![s("abandon")],
            5 => vec![s("bookmark"), s("set"), s("mark"), s("-r"), s("@"), s("--allow-backwards")],
            6 => vec![s("edit"), s("@-")],
            7 => vec![s("undo")],
            8 => vec![s("restore")],
            9 => vec![s("new"), s("root()"), s("-m"), format!("side {i}")],
            10 if !have_ws2 => {
                have_ws2 = true;
                vec![s("workspace"), s("add"), s("../ws2")]
            }
            11 => vec![s("rebase"), s("-r"), s("@"), s("-d"), s("root()")],
            12 => vec![s("duplicate"), s("@")],
            13 => vec![s("op"), s("restore"), s("@--")],
            14 => vec![s("util"), s("gc"), s("--expire=now")],
            15 => vec![s("sparse"), s("set"), s("--clear"), s("--add"), s("dir")],
            16 => vec![s("split"), s("a.txt"), s("-m"), format!("split {i}")],
            17 => vec![s("debug"), s("reindex")],
            _ => vec![s("status")],
        };
        steps.push(Step {
            edits,
            args,
            cwd: s("ws"),
        });
    }
    Workload { backend, steps }
}

fn apply_edits(ws: &Path, edits: &[(String, Option<String>)]) {
    for (f, c) in edits {
        let p = ws.join(f);
        match c {
            Some(c) => {
                if let Some(d) = p.parent() {
                    let _ = std::fs::create_dir_all(d);
                }
                let _ = std::fs::write(&p, c);
            }
            None => {
                let _ = std::fs::remove_file(&p);
            }
        }
    }
}

fn copy_tree(from: &Path, to: &Path) -> std::io::Result<()> {
    let st = Command::new("cp").arg("-a").arg(from).arg(to).status()?;
    if st.success() {
        Ok(())
    } else {
        Err(std::io::Error::other("cp -a failed"))
    }
}

fn op_log(sandbox: &Path, ws: &Path, number: u64) -> Result<Vec<String>, String> {
    let out = run_jj(
        sandbox,
        ws,
        number,
        &[
            s("--ignore-working-copy"),
            s("op"),
            s("log"),
            s("--no-graph"),
            s("-T"),
            s("id ++ \"\\n\""),
        ],
    )
    .map_err(|e| e.to_string())?;
    if !out.status.success() {
        return Err(format!(
            "jj op log exited with {:?}: {}",
            out.status.code(),
            String::from_utf8_lossy(&out.stderr).trim()
        ));
    }
    Ok(String::from_utf8_lossy(&out.stdout)
        .lines()
        .map(|l| l.trim().to_string())
        .filter(|l| !l.is_empty())
        .collect())
}

/// path -> bytes of every regular file in the workspace (not .jj / .git)
fn disk_files(ws: &Path) -> BTreeMap<String, Vec<u8>> {
    fn walk(base: &Path, dir: &Path, out: &mut BTreeMap<String, Vec<u8>>) {
        let Ok(rd) = std::fs::read_dir(dir) else { return };
        for e in rd.flatten() {
            let p = e.path();
            let name = e.file_name().to_string_lossy().into_owned();
            if dir == base && (name == ".jj" || name == ".git") {
                continue;
            }
            let Ok(ft) = e.file_type() else { continue };
            if ft.is_dir() {
                walk(base, &p, out);
            } else if ft.is_file()
                && let Ok(b) = std::fs::read(&p)
            {
                out.insert(p.strip_prefix(base).unwrap().to_string_lossy().into_owned(), b);
            }
        }
    }
    let mut out = BTreeMap::new();
    walk(ws, ws, &mut out);
    out
}

pub struct Reference {
    /// op log (newest first) before step j
    pub ops_before: Vec<Vec<String>>,
    /// op ids published by the fault-free execution of step j
    pub published: Vec<BTreeSet<String>>,
    /// number of kill points of step j
    pub kill_points: Vec<usize>,
    pub syscall_names: Vec<Vec<String>>,
    pub exit_codes: Vec<Option<i32>>,
}

/// Creates the repository and executes the workload fault-free under the
/// tracer, snapshotting the sandbox before every step into `snaps/<j>`.
pub fn reference_run(root: &Path, w: &Workload) -> Result<Reference, String> {
    let sandbox = root.join("live");
    let snaps = root.join("snaps");
    std::fs::create_dir_all(&sandbox).map_err(|e| e.to_string())?;
    std::fs::create_dir_all(&snaps).map_err(|e| e.to_string())?;
    write_config(&sandbox);
    let init_args: Vec<String> = match w.backend {
        "git" => vec![s("git"), s("init"), s("--no-colocate"), s("ws")],
        "git-colocated" => vec![s("git"), s("init"), s("--colocate"), s("ws")],
        _ => vec![s("debug"), s("init-simple"), s("ws")],
    };
    let out = run_jj(&sandbox, &sandbox, 1, &init_args).map_err(|e| e.to_string())?;
    if !out.status.success() {
        return Err(format!("init failed: {}", String::from_utf8_lossy(&out.stderr)));
    }
    let ws = sandbox.join("ws");
    let mut r = Reference {
        ops_before: vec![],
        published: vec![],
        kill_points: vec![],
        syscall_names: vec![],
        exit_codes: vec![],
    };
    for (j, step) in w.steps.iter().enumerate() {
        let cwd = sandbox.join(&step.cwd);
        apply_edits(&cwd, &step.edits);
        copy_tree(&sandbox, &snaps.join(j.to_string())).map_err(|e| e.to_string())?;
        let before = op_log(&sandbox, &ws, 9000 + j as u64)?;
        let env = jj_env(&sandbox, 100 + j as u64);
        let res = run_traced(&TraceSpec {
            program: &jj_binary(),
            args: &step.args,
            cwd: &cwd,
            env: &env,
            sandbox: &sandbox,
            kill: KillMode::None,
        })
        .map_err(|e| format!("trace failed: {e}"))?;
        let after = op_log(&sandbox, &ws, 9100 + j as u64)?;
        let before_set: BTreeSet<String> = before.iter().cloned().collect();
        r.published.push(after.iter().filter(|o| !before_set.contains(*o)).cloned().collect());
        r.ops_before.push(before);
        r.kill_points.push(res.syscalls.len());
        r.syscall_names.push(res.syscalls.iter().map(|c| format!("{} {}", c.name, c.path.strip_prefix(&*sandbox.to_string_lossy()).unwrap_or(&c.path))).collect());
        r.exit_codes.push(res.exit_code);
    }
    Ok(r)
}

#[derive(Debug)]
pub struct Finding {
    pub rule: &'static str,
    pub message: String,
}

fn repo_dir_of(ws: &Path) -> PathBuf {
    ws.join(".jj").join("repo")
}

/// The recovery oracle, run on a post-crash sandbox.
#[allow(clippy::too_many_lines)]
pub fn recovery_oracle(
    sandbox: &Path,
    ops_before: &[String],
    allowed_heads: &BTreeSet<String>,
    disk_before: &BTreeMap<String, Vec<u8>>,
    backend: &str,
) -> Vec<Finding> {
    let mut findings = vec![];
    let ws = sandbox.join("ws");
    // R1: the operation log is readable
    let log = match op_log(sandbox, &ws, 9500) {
        Ok(l) => l,
        Err(e) => {
            findings.push(Finding {
                rule: "R1_op_log_readable",
                message: e,
            });
            return findings;
        }
    };
    // R2: no operation that was in the log before is lost
    let log_set: BTreeSet<&String> = log.iter().collect();
    for o in ops_before {
        if !log_set.contains(o) {
            findings.push(Finding {
                rule: "R2_committed_operation_lost",
                message: format!("operation {} was in the log before the command and is gone after the crash", &o[..12]),
            });
            break;
        }
    }
    // R3: the head is the old head or an operation the command publishes
    if let Some(head) = log.first()
        && !allowed_heads.contains(head)
    {
        findings.push(Finding {
            rule: "R3_unknown_head_operation",
            message: format!(
                "head operation {} after the crash is neither the pre-command head nor one the fault-free command publishes",
                &head[..12]
            ),
        });
    }
    // R4: everything reachable loads through jj-lib (objects not torn)
    let settings = {
        let text = r#"
user.name = "Sim User"
user.email = "sim.user@example.com"
operation.username = "sim"
operation.hostname = "sim.example.com"
"#;
        let mut config = jj_lib::config::StackedConfig::with_defaults();
        config.add_layer(jj_lib::config::ConfigLayer::parse(jj_lib::config::ConfigSource::User, text).unwrap());
        jj_lib::settings::UserSettings::from_config(config).unwrap()
    };
    let mut wc_trees: Vec<jj_lib::merged_tree::MergedTree> = vec![];
    match RepoLoader::init_from_file_system(&settings, &repo_dir_of(&ws), &jj_lib::default_backend_factories::default_backend_factories()) {
        Err(e) => findings.push(Finding {
            rule: "R4_repo_loadable",
            message: format!("jj-lib cannot open the repository: {e}"),
        }),
        Ok(loader) => {
            for hex in &log {
                let Some(id) = OperationId::try_from_hex(hex) else { continue };
                let op = match loader.load_operation(&id).block_on() {
                    Ok(op) => op,
                    Err(e) => {
                        findings.push(Finding {
                            rule: "R4_operation_readable",
                            message: format!("operation {} listed in the log cannot be read: {e}", &hex[..12]),
                        });
                        continue;
                    }
                };
                match loader.load_at(&op).block_on() {
                    Ok(repo) => {
                        // every head and working-copy commit with its tree is readable
                        let mut ids: Vec<jj_lib::backend::CommitId> = repo.view().heads().iter().cloned().collect();
                        ids.extend(repo.view().wc_commit_ids().values().cloned());
                        for cid in ids {
                            match repo.store().get_commit(&cid) {
                                Ok(c) => {
                                    if repo.view().wc_commit_ids().values().any(|w| *w == cid) {
                                        wc_trees.push(c.tree());
                                    }
                                    // read the whole tree
                                    let tree = c.tree();
                                    let res: Result<(), String> = (|| {
                                        for (path, value) in tree.entries() {
                                            let value = value.map_err(|e| format!("{e}"))?;
                                            for term in value.iter().flatten() {
                                                if let jj_lib::backend::TreeValue::File { id, .. } = term {
                                                    let mut r = repo
                                                        .store()
                                                        .read_file(&path, id)
                                                        .block_on()
                                                        .map_err(|e| format!("{e}"))?;
                                                    let mut buf = vec![];
                                                    tokio_free_read(&mut r, &mut buf).block_on().map_err(|e| e.to_string())?;
                                                }
                                            }
                                        }
                                        Ok(())
                                    })();
                                    if let Err(e) = res {
                                        findings.push(Finding {
                                            rule: "R4_tree_readable",
                                            message: format!("tree of commit {} (operation {}) cannot be read: {e}", &cid.hex()[..12], &hex[..12]),
                                        });
                                    }
                                }
                                Err(e) => findings.push(Finding {
                                    rule: "R4_commit_readable",
                                    message: format!("commit {} referenced by operation {} cannot be read: {e}", &cid.hex()[..12], &hex[..12]),
                                }),
                            }
                        }
                    }
                    Err(e) => findings.push(Finding {
                        rule: "R4_repo_loadable_at_operation",
                        message: format!("repository cannot be loaded at operation {}: {e}", &hex[..12]),
                    }),
                }
                if findings.len() > 3 {
                    break;
                }
            }
        }
    }
    if backend != "simple" {
        let git_dir = if backend == "git-colocated" {
            ws.join(".git")
        } else {
            repo_dir_of(&ws).join("store").join("git")
        };
        let out = Command::new("git")
            .arg("--git-dir")
            .arg(&git_dir)
            .args(["fsck", "--no-dangling", "--connectivity-only"])
            .env_clear()
            .env("PATH", "/usr/local/bin:/usr/bin:/bin")
            .env("GIT_CONFIG_SYSTEM", "/dev/null")
            .env("GIT_CONFIG_GLOBAL", "/dev/null")
            .output();
        if let Ok(out) = out
            && !out.status.success()
        {
            findings.push(Finding {
                rule: "R4_git_fsck",
                message: format!("git fsck fails: {}", String::from_utf8_lossy(&out.stderr).lines().next().unwrap_or("")),
            });
        }
    }
    // R5: the workspace recovers and no on-disk content was lost
    let out = run_jj(sandbox, &ws, 9600, &[s("workspace"), s("update-stale")]);
    match out {
        Ok(o) if o.status.success() => {}
        Ok(o) => findings.push(Finding {
            rule: "R5_update_stale",
            message: format!("jj workspace update-stale fails: {}", String::from_utf8_lossy(&o.stderr).trim().lines().next().unwrap_or("")),
        }),
        Err(e) => findings.push(Finding {
            rule: "R5_update_stale",
            message: e.to_string(),
        }),
    }
    let out = run_jj(sandbox, &ws, 9601, &[s("status")]);
    match out {
        Ok(o) if o.status.success() => {}
        Ok(o) => findings.push(Finding {
            rule: "R5_status",
            message: format!("jj status fails after recovery: {}", String::from_utf8_lossy(&o.stderr).trim().lines().next().unwrap_or("")),
        }),
        Err(e) => findings.push(Finding {
            rule: "R5_status",
            message: e.to_string(),
        }),
    }
    // content preservation: on disk now, or in some recorded working-copy commit
    let disk_now = disk_files(&ws);
    // reload: the recovery commands may have snapshotted
    if let Ok(loader) = RepoLoader::init_from_file_system(&settings, &repo_dir_of(&ws), &jj_lib::default_backend_factories::default_backend_factories())
        && let Ok(log2) = op_log(sandbox, &ws, 9700)
    {
        for hex in &log2 {
            let Some(id) = OperationId::try_from_hex(hex) else { continue };
            if let Ok(op) = loader.load_operation(&id).block_on()
                && let Ok(repo) = loader.load_at(&op).block_on()
            {
                for cid in repo.view().wc_commit_ids().values() {
                    if let Ok(c) = repo.store().get_commit(cid) {
                        wc_trees.push(c.tree());
                    }
                }
            }
        }
        for (path, bytes) in disk_before {
            if disk_now.get(path) == Some(bytes) {
                continue;
            }
            let Ok(rp) = jj_lib::repo_path::RepoPathBuf::from_internal_string(path.as_str()) else { continue };
            let mut found = false;
            for t in &wc_trees {
                if let Ok(v) = t.path_value(&rp).block_on() {
                    for term in v.iter().flatten() {
                        if let jj_lib::backend::TreeValue::File { id, .. } = term
                            && let Ok(mut r) = loader.store().read_file(&rp, id).block_on()
                        {
                            let mut buf = vec![];
                            if tokio_free_read(&mut r, &mut buf).block_on().is_ok() && buf == *bytes {
                                found = true;
                            }
                        }
                    }
                }
                if found {
                    break;
                }
            }
            if !found {
                findings.push(Finding {
                    rule: "R5_working_copy_content_lost",
                    message: format!(
                        "file {path} ({} bytes) was on disk before the command; after crash and recovery it is neither on disk nor in any recorded working-copy commit",
                        bytes.len()
                    ),
                });
                break;
            }
        }
    }
    findings
}

async fn tokio_free_read(r: &mut (impl futures::AsyncRead + Unpin), buf: &mut Vec<u8>) -> std::io::Result<()> {
    use futures::AsyncReadExt as _;
    r.read_to_end(buf).await.map(|_| ())
}

// ---------------------------------------------------------------------------
// plan / workers

#[derive(Clone, Debug)]
struct Item {
    workload: usize,
    step: usize,
    k: usize,
    torn: bool,
    prio: u8,
}

fn workload_for(seed: u64, index: u64) -> Workload {
    let mut ch = Chooser::from_seed(derive_seed(seed, "crashsim", index));
    gen_workload(&mut ch)
}

fn workload_json(w: &Workload) -> Value {
    json!({
        "backend": w.backend,
        "steps": w.steps.iter().map(|st| json!({"edits": st.edits, "args": st.args, "cwd": st.cwd})).collect::<Vec<_>>(),
    })
}

fn workload_from_json(v: &Value) -> Workload {
    let backend = match v["backend"].as_str().unwrap_or("git") {
        "git" => "git",
        "git-colocated" => "git-colocated",
        _ => "simple",
    };
    let steps = v["steps"]
        .as_array()
        .map(|a| {
            a.iter()
                .map(|st| Step {
                    edits: st["edits"]
                        .as_array()
                        .map(|e| {
                            e.iter()
                                .map(|p| (p[0].as_str().unwrap_or("").to_string(), p[1].as_str().map(str::to_string)))
                                .collect()
                        })
                        .unwrap_or_default(),
                    args: st["args"].as_array().map(|a| a.iter().map(|x| x.as_str().unwrap_or("").to_string()).collect()).unwrap_or_default(),
                    cwd: st["cwd"].as_str().unwrap_or("ws").to_string(),
                })
                .collect()
        })
        .unwrap_or_default();
    Workload { backend, steps }
}

/// Executes one kill point: restore the snapshot, run the command killed at
/// `k`, run the oracle. Returns (killed, findings, syscall description).
fn run_item(root: &Path, w: &Workload, reference: &Reference, step: usize, k: usize, torn: bool, scratch: &Path) -> (bool, Vec<Finding>, String, PathBuf) {
    let _ = std::fs::remove_dir_all(scratch);
    std::fs::create_dir_all(scratch.parent().unwrap()).unwrap();
    copy_tree(&root.join("snaps").join(step.to_string()), scratch).unwrap();
    let sandbox = scratch.to_path_buf();
    let st = &w.steps[step];
    let cwd = sandbox.join(&st.cwd);
    let disk_before = disk_files(&sandbox.join("ws"));
    // The reference run executed in <root>/live; paths inside the repository
    // that are stored absolute (none in jj's own files) are not an issue.
    let env = jj_env(&sandbox, 100 + step as u64);
    let res = run_traced(&TraceSpec {
        program: &jj_binary(),
        args: &st.args,
        cwd: &cwd,
        env: &env,
        sandbox: &sandbox,
        kill: if torn { KillMode::TornWrite(k) } else { KillMode::AtEntry(k) },
    });
    let res = match res {
        Ok(r) => r,
        Err(e) => {
            return (
                false,
                vec![Finding {
                    rule: "HARNESS",
                    message: format!("trace failed: {e}"),
                }],
                String::new(),
                sandbox,
            );
        }
    };
    let desc = res
        .syscalls
        .get(k)
        .map(|c| format!("{} {}", c.name, c.path.strip_prefix(&*sandbox.to_string_lossy()).unwrap_or(&c.path)))
        .unwrap_or_else(|| "(command finished before this point)".to_string());
    let mut allowed: BTreeSet<String> = reference.published[step].clone();
    if let Some(h) = reference.ops_before[step].first() {
        allowed.insert(h.clone());
    }
    let findings = recovery_oracle(&sandbox, &reference.ops_before[step], &allowed, &disk_before, w.backend);
    (res.killed, findings, desc, sandbox)
}

pub fn budget(tier: Tier) -> (u64, u64, u64) {
    // (workloads, sample one kill point in N (1 = all), max seconds)
    match tier {
        Tier::Quick => (2, 6, 110),
        Tier::Thorough => (60, 1, 1500),
    }
}

/// Parent: `jjsim check C15`.
#[allow(clippy::too_many_lines)]
pub fn check_main(tier: Tier, seed: u64, workers: u64, write_evidence: bool, n_workloads: Option<u64>, max_seconds: Option<u64>) -> i32 {
    let t0 = Instant::now();
    let (nw, sample, maxs) = budget(tier);
    let nw = n_workloads.unwrap_or(nw);
    let maxs = max_seconds.unwrap_or(maxs);
    let base = runner::scratch_base().join("crash");
    let _ = std::fs::remove_dir_all(&base);
    std::fs::create_dir_all(&base).unwrap();
    println!("jjsim engine=crashsim property=C15 tier={} VERIF_SEED={seed} workloads={nw} sample=1/{sample} workers={workers}", tier.name());
    if !jj_binary().exists() {
        eprintln!("HARNESS-ERROR: {} does not exist (run ./check --build)", jj_binary().display());
        return 2;
    }
    // Phase A: reference runs
    let mut plan: Vec<Value> = vec![];
    let mut items: Vec<Item> = vec![];
    let mut total_points = 0usize;
    let mut ref_errors = vec![];
    for wi in 0..nw {
        let w = workload_for(seed, wi);
        let root = base.join(format!("w{wi}"));
        std::fs::create_dir_all(&root).unwrap();
        match reference_run(&root, &w) {
            Ok(r) => {
                let mut rng = Chooser::from_seed(derive_seed(seed, "crashsim-sample", wi));
                for (j, n) in r.kill_points.iter().enumerate() {
                    total_points += n + 1;
                    for k in 0..=*n {
                        // Bias towards the instants that matter for atomic
                        // publication: everything that touches the operation
                        // heads, every unlink, every rename and the very
                        // first/last points are always taken; plain data
                        // writes are sampled.
                        let desc = r.syscall_names[j].get(k).map(String::as_str).unwrap_or("");
                        let name = desc.split(' ').next().unwrap_or("");
                        let critical = desc.contains("/op_heads/")
                            || desc.contains("/working_copy/")
                            || desc.contains("/heads/")
                            || name.starts_with("unlink")
                            || k < 2
                            || k + 2 >= *n;
                        let important = name.starts_with("rename") || name.starts_with("link");
                        let take = sample == 1
                            || critical
                            || (important && rng.choose(2) == 0)
                            || rng.choose(sample as usize) == 0;
                        if take {
                            items.push(Item { workload: wi as usize, step: j, k, torn: false, prio: if critical { 0 } else if important { 1 } else { 2 } });
                        }
                        // torn variant for writes
                        if k < *n && desc.starts_with("write ") && (sample == 1 || rng.choose(sample as usize * 2) == 0) {
                            items.push(Item { workload: wi as usize, step: j, k, torn: true, prio: 2 });
                        }
                    }
                }
                plan.push(json!({
                    "index": wi,
                    "workload": workload_json(&w),
                    "ops_before": r.ops_before,
                    "published": r.published.iter().map(|s| s.iter().cloned().collect::<Vec<_>>()).collect::<Vec<_>>(),
                    "kill_points": r.kill_points,
                    "syscalls": r.syscall_names,
                    "exit_codes": r.exit_codes,
                }));
            }
            Err(e) => {
                ref_errors.push(format!("workload {wi}: {e}"));
                plan.push(Value::Null);
            }
        }
    }
    if !ref_errors.is_empty() {
        for e in &ref_errors {
            eprintln!("HARNESS-ERROR: reference run failed: {e}");
        }
        let _ = std::fs::remove_dir_all(&base);
        return 2;
    }
    // critical points first, so that a time-limited run covers them all
    items.sort_by_key(|i| i.prio);
    std::fs::write(base.join("plan.json"), serde_json::to_vec(&json!({"workloads": plan})).unwrap()).unwrap();
    println!("reference runs done in {:.1}s: {} kill points in {} commands, {} selected", t0.elapsed().as_secs_f64(), total_points, plan.iter().map(|p| p["kill_points"].as_array().map_or(0, Vec::len)).sum::<usize>(), items.len());
    // Phase B: workers
    let exe = std::env::current_exe().unwrap();
    let workers = workers.max(1).min(items.len().max(1) as u64);
    let items_json: Vec<Value> = items.iter().map(|i| json!([i.workload, i.step, i.k, i.torn])).collect();
    std::fs::write(base.join("items.json"), serde_json::to_vec(&items_json).unwrap()).unwrap();
    let mut children = vec![];
    for w in 0..workers {
        let child = Command::new(&exe)
            .arg("crashworker")
            .arg("--base")
            .arg(&base)
            .arg("--start")
            .arg(w.to_string())
            .arg("--stride")
            .arg(workers.to_string())
            .arg("--max-seconds")
            .arg(maxs.saturating_sub(t0.elapsed().as_secs()).max(10).to_string())
            .stdout(std::process::Stdio::null())
            .spawn()
            .unwrap();
        children.push((w, child));
    }
    let mut done = 0u64;
    let mut killed = 0u64;
    let mut torn = 0u64;
    let mut states: BTreeSet<String> = BTreeSet::new();
    let mut violations: Vec<Value> = vec![];
    let mut harness_errors: Vec<String> = vec![];
    let mut by_syscall: BTreeMap<String, u64> = BTreeMap::new();
    for (w, mut child) in children {
        let st = child.wait().unwrap();
        if !st.success() {
            harness_errors.push(format!("crash worker {w} exited with {st}"));
        }
        if let Ok(text) = std::fs::read_to_string(base.join(format!("result{w}.json"))) {
            let v: Value = serde_json::from_str(&text).unwrap();
            done += v["done"].as_u64().unwrap_or(0);
            killed += v["killed"].as_u64().unwrap_or(0);
            torn += v["torn"].as_u64().unwrap_or(0);
            for sname in v["states"].as_array().into_iter().flatten() {
                states.insert(sname.as_str().unwrap_or("").to_string());
            }
            for (k, n) in v["by_syscall"].as_object().into_iter().flatten() {
                *by_syscall.entry(k.clone()).or_insert(0) += n.as_u64().unwrap_or(0);
            }
            violations.extend(v["violations"].as_array().into_iter().flatten().cloned());
            harness_errors.extend(v["harness_errors"].as_array().into_iter().flatten().filter_map(|x| x.as_str().map(str::to_string)));
        }
    }
    let known = runner::KnownFindings::load();
    let mut exit = 0;
    let mut known_hits: BTreeMap<String, u64> = BTreeMap::new();
    let mut reported = 0;
    for v in &violations {
        let viol = runner::Violation {
            property: "C15".into(),
            invariant: v["rule"].as_str().unwrap_or("").into(),
            key: v["key"].as_str().unwrap_or("").into(),
            message: v["message"].as_str().unwrap_or("").into(),
            at_event: 0,
        };
        if let Some((_, key, what)) = known.matches(&viol) {
            if !known_hits.contains_key(key) {
                println!("KNOWN-FINDING: property=C15 {what} (key={key})");
            }
            *known_hits.entry(key.clone()).or_insert(0) += 1;
            continue;
        }
        exit = 1;
        if reported < 10 {
            println!("VIOLATION property=C15 replay={}", v["replay"].as_str().unwrap_or("none"));
            println!("  rule={} {}", viol.invariant, viol.message);
            reported += 1;
        }
    }
    for e in harness_errors.iter().take(10) {
        eprintln!("HARNESS-ERROR: {e}");
    }
    if !harness_errors.is_empty() && exit == 0 {
        exit = 2;
    }
    let wall = t0.elapsed().as_secs_f64();
    let exhaustive = sample == 1 && done as usize == items.len();
    let samples: Vec<Value> = plan
        .iter()
        .take(2)
        .map(|p| {
            json!({
                "workload": p["workload"],
                "kill_points_per_command": p["kill_points"],
                "first_command_syscalls": p["syscalls"][0].as_array().map(|a| a.iter().take(40).cloned().collect::<Vec<_>>()),
            })
        })
        .collect();
    let evidence = json!({
        "property_id": "C15",
        "tier": tier.name(),
        "seed": seed,
        "level": "fault_enumeration",
        "coverage": {
            "evaluations": done,
            "distinct_nontrivial": states.len(),
            "rule": "one evaluation = one real execution of one jj command of a seeded workload, SIGKILLed at the entry of its k-th file-system-mutating syscall (global counter over all threads; torn variant: the k-th write shortened to half, executed, then killed), followed by the recovery oracle R1-R5 in fresh processes; distinct = distinct (workload, command, syscall index, variant) whose kill actually happened (non-trivial: the process was killed before it finished)",
            "samples": samples,
            "workloads": nw,
            "commands": plan.iter().map(|p| p["kill_points"].as_array().map_or(0, Vec::len)).sum::<usize>(),
            "kill_points_total": total_points,
            "kill_points_selected": items.len(),
            "kill_points_executed": done,
            "kills_delivered": killed,
            "torn_writes_delivered": torn,
            "faults": {"sigkill_at_syscall_entry": {"fired": killed - torn}, "torn_write_then_kill": {"fired": torn}},
            "killed_syscall_histogram": by_syscall,
            "exhaustive": exhaustive,
            "exhaustive_note": if sample == 1 { "every kill point of every command of the sampled workloads" } else { "every kill point touching op_heads/, working_copy/, table heads/, every unlink, the first/last two points; half of the renames; a seeded 1/6 of the remaining data writes; critical points run first" },
            "runs_per_hour": (done as f64 / wall * 3600.0).round(),
            "components_real": ["the unguarded jj binary built from /repo (debug profile)", "system git 2.39 (fsck)", "kernel tmpfs", "jj-lib (oracle reads)"],
            "components_stub": ["none: the crash is a real SIGKILL delivered by a ptrace supervisor"],
            "known_findings_matched": known_hits,
            "engine": "crashsim",
        },
        "assumptions": [
            "a process kill takes effect between two syscalls or inside a write (torn variant); file-system state is what the kernel holds (no power loss, no lost page cache)",
            "re-executing a command from an identical directory with identical JJ_* seeds issues the same syscall sequence (checked: the reference trace and each killed trace agree up to the kill point in length); any kill instant is a legal crash, so residual nondeterminism cannot cause a false alarm",
        ],
        "wall_s": wall,
        "violations": violations.len(),
    });
    if write_evidence {
        let dir = runner::verif_dir().join("evidence");
        let _ = std::fs::create_dir_all(&dir);
        std::fs::write(dir.join("C15.json"), serde_json::to_vec_pretty(&evidence).unwrap()).unwrap();
    }
    let _ = std::fs::remove_dir_all(&base);
    runner::cleanup_scratch_base();
    println!("done: kill_points_executed={done} killed={killed} torn={torn} distinct={} violations={} wall={wall:.1}s exit={exit}", states.len(), violations.len());
    exit
}

/// Worker: `jjsim crashworker --base <dir> --start i --stride n`.
pub fn worker_main(base: &Path, start: u64, stride: u64, max_seconds: u64) {
    let t0 = Instant::now();
    let plan: Value = serde_json::from_str(&std::fs::read_to_string(base.join("plan.json")).unwrap()).unwrap();
    let items: Vec<Value> = serde_json::from_str(&std::fs::read_to_string(base.join("items.json")).unwrap()).unwrap();
    let mut refs: BTreeMap<usize, (Workload, Reference)> = BTreeMap::new();
    for p in plan["workloads"].as_array().unwrap() {
        if p.is_null() {
            continue;
        }
        let w = workload_from_json(&p["workload"]);
        let strs = |v: &Value| -> Vec<String> { v.as_array().map(|a| a.iter().map(|x| x.as_str().unwrap_or("").to_string()).collect()).unwrap_or_default() };
        let r = Reference {
            ops_before: p["ops_before"].as_array().unwrap().iter().map(strs).collect(),
            published: p["published"].as_array().unwrap().iter().map(|v| strs(v).into_iter().collect()).collect(),
            kill_points: p["kill_points"].as_array().unwrap().iter().map(|x| x.as_u64().unwrap() as usize).collect(),
            syscall_names: p["syscalls"].as_array().unwrap().iter().map(strs).collect(),
            exit_codes: vec![],
        };
        refs.insert(p["index"].as_u64().unwrap() as usize, (w, r));
    }
    let mut done = 0u64;
    let mut killed = 0u64;
    let mut torn_n = 0u64;
    let mut states: Vec<String> = vec![];
    let mut violations: Vec<Value> = vec![];
    let mut harness_errors: Vec<String> = vec![];
    let mut by_syscall: BTreeMap<String, u64> = BTreeMap::new();
    let scratch = base.join(format!("worker{start}")).join("sandbox");
    let mut idx = start as usize;
    while idx < items.len() {
        if t0.elapsed().as_secs() >= max_seconds {
            break;
        }
        let it = &items[idx];
        let (wi, step, k, torn) = (
            it[0].as_u64().unwrap() as usize,
            it[1].as_u64().unwrap() as usize,
            it[2].as_u64().unwrap() as usize,
            it[3].as_bool().unwrap(),
        );
        let (w, r) = &refs[&wi];
        let root = base.join(format!("w{wi}"));
        let (was_killed, findings, desc, sandbox) = run_item(&root, w, r, step, k, torn, &scratch);
        done += 1;
        if was_killed {
            killed += 1;
            if torn {
                torn_n += 1;
            }
            states.push(format!("{wi}:{step}:{k}:{torn}"));
            *by_syscall.entry(desc.split(' ').next().unwrap_or("").to_string()).or_insert(0) += 1;
        }
        for f in findings {
            if f.rule == "HARNESS" {
                harness_errors.push(f.message);
                continue;
            }
            // replay artefact: workload, kill point, post-crash image
            let dir = runner::verif_dir().join("replays");
            let _ = std::fs::create_dir_all(&dir);
            let name = format!("C15-crashsim-w{wi}-s{step}-k{k}{}", if torn { "t" } else { "" });
            let tar_path = dir.join(format!("{name}.tar.gz"));
            let replay_path = dir.join(format!("{name}.json"));
            if violations.len() < 3 {
                let _ = Command::new("tar")
                    .arg("-czf")
                    .arg(&tar_path)
                    .arg("-C")
                    .arg(&sandbox)
                    .arg(".")
                    .status();
            }
            let site = desc.split(' ').nth(1).map(normalise_site).unwrap_or_default();
            let key = format!("crashsim:{}:{}:{}", f.rule, w.steps[step].args.first().cloned().unwrap_or_default(), site);
            let doc = json!({
                "property": "C15",
                "engine": "crashsim",
                "invariant": f.rule,
                "key": key,
                "message": f.message,
                "workload": workload_json(w),
                "step": step,
                "kill_point": k,
                "torn": torn,
                "killed_at_syscall": desc,
                "ops_before": r.ops_before[step],
                "allowed_heads": r.published[step].iter().cloned().chain(r.ops_before[step].first().cloned()).collect::<Vec<_>>(),
                "post_crash_image": tar_path.to_string_lossy(),
                "trace": r.syscall_names[step].iter().take(k + 1).collect::<Vec<_>>(),
            });
            let _ = std::fs::write(&replay_path, serde_json::to_vec_pretty(&doc).unwrap());
            violations.push(json!({"rule": f.rule, "key": key, "message": format!("{} [command {:?}, killed at #{k} {}]", f.message, w.steps[step].args, desc), "replay": replay_path.to_string_lossy()}));
            break;
        }
        idx += stride as usize;
    }
    let _ = std::fs::remove_dir_all(base.join(format!("worker{start}")));
    let doc = json!({"done": done, "killed": killed, "torn": torn_n, "states": states, "violations": violations, "harness_errors": harness_errors, "by_syscall": by_syscall});
    std::fs::write(base.join(format!("result{start}.json")), serde_json::to_vec(&doc).unwrap()).unwrap();
}

/// Strips hashes and temp-file suffixes so that a site names a kind of file.
fn normalise_site(path: &str) -> String {
    path.split('/')
        .map(|c| {
            if c.len() >= 16 && c.bytes().all(|b| b.is_ascii_hexdigit()) {
                "<hash>"
            } else if c.starts_with(".tmp") || c.starts_with("tmp") {
                "<tmp>"
            } else {
                c
            }
        })
        .collect::<Vec<_>>()
        .join("/")
}

/// Replay: re-run the recovery oracle on the recorded post-crash image.
pub fn replay_main(file: &Path, doc: &Value) -> i32 {
    let image = PathBuf::from(doc["post_crash_image"].as_str().unwrap_or(""));
    let base = runner::scratch_base().join("crash-replay");
    let _ = std::fs::remove_dir_all(&base);
    std::fs::create_dir_all(&base).unwrap();
    let sandbox = base.join("sandbox");
    std::fs::create_dir_all(&sandbox).unwrap();
    if !image.exists() {
        eprintln!("post-crash image {} is missing", image.display());
        return 2;
    }
    let st = Command::new("tar").arg("-xzf").arg(&image).arg("-C").arg(&sandbox).status();
    if !st.is_ok_and(|s| s.success()) {
        eprintln!("cannot unpack {}", image.display());
        return 2;
    }
    // config.toml / HOME inside the image use the old absolute paths only via env, which we rebuild
    let strs = |v: &Value| -> Vec<String> { v.as_array().map(|a| a.iter().map(|x| x.as_str().unwrap_or("").to_string()).collect()).unwrap_or_default() };
    let ops_before = strs(&doc["ops_before"]);
    let allowed: BTreeSet<String> = strs(&doc["allowed_heads"]).into_iter().collect();
    let w = workload_from_json(&doc["workload"]);
    let findings = recovery_oracle(&sandbox, &ops_before, &allowed, &BTreeMap::new(), w.backend);
    let _ = std::fs::remove_dir_all(&base);
    runner::cleanup_scratch_base();
    let want = doc["invariant"].as_str().unwrap_or("");
    for f in &findings {
        println!("finding: {} {}", f.rule, f.message);
    }
    // content-loss findings need the pre-command disk state, which the image
    // does not carry; they are re-derived by re-execution instead.
    if findings.iter().any(|f| f.rule == want) {
        println!("VIOLATION property=C15 replay={} invariant={want}", file.display());
        1
    } else if want == "R5_working_copy_content_lost" {
        println!("VIOLATION property=C15 replay={} invariant={want} (not re-derivable from the image alone; see message in the replay file)", file.display());
        1
    } else {
        eprintln!("replay did not reproduce C15:{want}");
        2
    }
}
