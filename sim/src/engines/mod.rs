pub mod clisim;
pub mod configsim;
pub mod crashsim;
pub mod gitsim;
pub mod hashsim;
pub mod pushsim;
pub mod reposim;
pub mod tablesim;
pub mod tasksim;
pub mod wcsim;

use crate::core::runner::Engine;

pub fn all() -> Vec<Box<dyn Engine>> {
    vec![Box::new(tablesim::TableSim), Box::new(reposim::RepoSim), Box::new(wcsim::WcSim), Box::new(tasksim::TaskSim), Box::new(hashsim::HashSim), Box::new(configsim::ConfigSim), Box::new(gitsim::GitSim), Box::new(pushsim::PushSim), Box::new(clisim::CliSim)]
}

pub fn by_name(name: &str) -> Option<Box<dyn Engine>> {
    all().into_iter().find(|e| e.name() == name)
}

pub fn for_property(prop: &str) -> Option<Box<dyn Engine>> {
    all().into_iter().find(|e| e.properties().contains(&prop))
}
