//! HashSim — the diff's per-run random hash seed (C03).
//!
//! `WordComparator::new` draws `RandomState::new()` for every diff. In this
//! binary the keys of `RandomState` come from the harness (getrandom seam), so
//! each generated input is diffed under several seeds in fresh threads, and
//! once under a deliberately weak hash (hook H4: only the low bits of the word
//! hash are kept, so collisions are common). The hunks must be identical.

use std::path::Path;

use jj_core::diff::CompareBytesExactly;
use jj_core::diff::CompareBytesIgnoreAllWhitespace;
use jj_core::diff::CompareBytesIgnoreWhitespaceAmount;
use jj_core::diff::ContentDiff;
use jj_core::diff::DiffHunkKind;
use jj_core::diff::find_line_ranges;
use jj_core::diff::find_nonword_ranges;
use jj_core::diff::find_word_ranges;

use crate::core::chooser::Chooser;
use crate::core::rand_seam;
use crate::core::runner::Budget;
use crate::core::runner::Engine;
use crate::core::runner::RunOutcome;
use crate::core::runner::Tier;

pub struct HashSim;

#[derive(Clone, Copy, Debug, PartialEq, Eq)]
enum Tok {
    Line,
    Word,
    Unrefined,
    LineThenWord,
}

#[derive(Clone, Copy, Debug, PartialEq, Eq)]
enum Cmp {
    Exact,
    IgnoreAllWs,
    IgnoreWsAmount,
}

type Hunks = Vec<(bool, Vec<Vec<u8>>)>;

fn compute(inputs: &[Vec<u8>], tok: Tok, cmp: Cmp) -> (Hunks, Vec<(bool, Vec<std::ops::Range<usize>>)>) {
    fn build<C: jj_core::diff::CompareBytes>(inputs: &[Vec<u8>], tok: Tok, mk: impl Fn() -> C) -> ContentDiff<'_> {
        match tok {
            Tok::Line => ContentDiff::for_tokenizer(inputs, find_line_ranges, mk()),
            Tok::Word => ContentDiff::for_tokenizer(inputs, find_word_ranges, mk()),
            Tok::Unrefined => ContentDiff::for_tokenizer(inputs, |_| vec![], mk()),
            Tok::LineThenWord => {
                let mut d = ContentDiff::for_tokenizer(inputs, find_line_ranges, mk());
                d.refine_changed_regions(find_word_ranges, mk());
                d.refine_changed_regions(find_nonword_ranges, mk());
                d
            }
        }
    }
    let diff = match cmp {
        Cmp::Exact => build(inputs, tok, || CompareBytesExactly),
        Cmp::IgnoreAllWs => build(inputs, tok, || CompareBytesIgnoreAllWhitespace),
        Cmp::IgnoreWsAmount => build(inputs, tok, || CompareBytesIgnoreWhitespaceAmount),
    };
    let hunks = diff
        .hunks()
        .map(|h| (h.kind == DiffHunkKind::Matching, h.contents.iter().map(|c| c.to_vec()).collect()))
        .collect();
    let ranges = diff
        .hunk_ranges()
        .map(|h| (h.kind == DiffHunkKind::Matching, h.ranges.to_vec()))
        .collect();
    (hunks, ranges)
}

fn eq_under(cmp: Cmp, a: &[u8], b: &[u8]) -> bool {
    use jj_core::diff::CompareBytes as _;
    match cmp {
        Cmp::Exact => CompareBytesExactly.eq(a, b),
        Cmp::IgnoreAllWs => CompareBytesIgnoreAllWhitespace.eq(a, b),
        Cmp::IgnoreWsAmount => CompareBytesIgnoreWhitespaceAmount.eq(a, b),
    }
}

fn gen_text(ch: &mut Chooser, base: Option<&[u8]>) -> Vec<u8> {
    // derive from the base with edits so that matches are non-trivial
    let words = ["foo", "bar", "baz", "qux", "a", "b", "{", "}", "fn", "x=1;"];
    let eols: [&[u8]; 3] = [b"\n", b"\r\n", b"\n"];
    if let Some(base) = base
        && ch.chance(4, 5)
    {
        let mut out = base.to_vec();
        for _ in 0..ch.range(0, 4) {
            if out.is_empty() {
                break;
            }
            let pos = ch.choose(out.len());
            match ch.choose(4) {
                0 => {
                    out.remove(pos);
                }
                1 => out.insert(pos, b" \t\nxy"[ch.choose(5)]),
                2 => {
                    let w = words[ch.choose(words.len())].as_bytes();
                    out.splice(pos..pos, w.iter().copied());
                }
                _ => {
                    // duplicate a line
                    let start = out[..pos].iter().rposition(|b| *b == b'\n').map_or(0, |i| i + 1);
                    let end = out[pos..].iter().position(|b| *b == b'\n').map_or(out.len(), |i| pos + i + 1);
                    let line = out[start..end].to_vec();
                    out.splice(start..start, line);
                }
            }
        }
        return out;
    }
    let mut out = vec![];
    let lines = ch.choose(12);
    let eol = eols[ch.choose(3)];
    for _ in 0..lines {
        for w in 0..ch.choose(5) {
            if w > 0 {
                out.extend_from_slice(&b"  \t"[..1 + ch.choose(2)]);
            }
            out.extend_from_slice(words[ch.choose(words.len())].as_bytes());
        }
        out.extend_from_slice(eol);
    }
    match ch.choose(8) {
        0 => {
            // no final newline
            while out.last().is_some_and(|b| *b == b'\n' || *b == b'\r') {
                out.pop();
            }
        }
        1 => out.extend_from_slice(&[0, 159, 146, 150, 0xff]),
        _ => {}
    }
    out
}

impl Engine for HashSim {
    fn name(&self) -> &'static str {
        "hashsim"
    }

    fn properties(&self) -> Vec<&'static str> {
        vec!["C03"]
    }

    fn budget(&self, _prop: &str, tier: Tier) -> Budget {
        match tier {
            Tier::Quick => Budget { runs: 40_000, max_seconds: 60 },
            Tier::Thorough => Budget { runs: 5_000_000, max_seconds: 900 },
        }
    }

    fn rule(&self, _prop: &str) -> String {
        "one evaluation = one generated list of 1-4 byte strings diffed with one tokenizer and one comparison under 4 hash configurations \
         (three RandomState seeds in fresh threads, one 8-bit-masked weak hash); distinct = distinct hash of (inputs, tokenizer, comparison); \
         non-trivial = at least one matching and one differing hunk were produced and the weak hash made two different tokens collide"
            .to_string()
    }

    fn components_real(&self) -> Vec<&'static str> {
        vec!["jj_core::diff (ContentDiff, histogram LCS, refine/compact, hunk iterators)"]
    }

    fn components_stub(&self) -> Vec<&'static str> {
        vec!["RandomState keys (getrandom seam, per-run seed)", "word-hash mask (hook H4)"]
    }

    fn assumptions(&self, _prop: &str) -> Vec<String> {
        vec!["a word hash truncated to 8 bits is a legal (if improbable) behaviour of a randomly keyed hash".to_string()]
    }

    fn fault_kinds(&self) -> Vec<&'static str> {
        vec!["hash_seed_change", "weak_hash_collisions"]
    }

    fn run(&self, prop: &str, mut ch: Chooser, _scratch: &Path) -> RunOutcome {
        let mut out = RunOutcome::default();
        let mut n = ch.weighted(&[1, 6, 2, 1]) + 1;
        let base = gen_text(&mut ch, None);
        let mut inputs = vec![base.clone()];
        for _ in 1..n {
            inputs.push(gen_text(&mut ch, Some(&base)));
        }
        // Large reordered inputs: two blocks of unique lines swapped (A++B vs
        // B++A, optionally a third side with the blocks interleaved). Hundreds of
        // shared tokens occur once on every side and the competing common
        // subsequences have similar size, so which one the histogram LCS anchors
        // on must not depend on the table's iteration order.
        if ch.chance(1, 12) {
            let len = *ch.pick(&[60usize, 140, 200, 300]);
            let eol = *ch.pick(&["\n", "\r\n"]);
            let block = |tag: &str| -> Vec<String> { (0..len).map(|i| format!("{tag} unique line {i:03}{eol}")).collect() };
            let (a, b) = (block("alpha"), block("beta"));
            let ab: String = a.iter().chain(b.iter()).cloned().collect();
            let ba: String = b.iter().chain(a.iter()).cloned().collect();
            inputs = vec![ab.into_bytes(), ba.into_bytes()];
            if ch.chance(1, 3) {
                let mixed: String = a.iter().zip(b.iter()).flat_map(|(x, y)| [x.clone(), y.clone()]).collect();
                inputs.push(mixed.into_bytes());
            }
            n = inputs.len();
            out.probe("large_reordered_blocks", 1);
        }
        if ch.chance(1, 10) {
            let i = ch.choose(inputs.len());
            inputs[i].clear();
        }
        let tok = *ch.pick(&[Tok::Line, Tok::Word, Tok::Unrefined, Tok::LineThenWord]);
        let cmp = *ch.pick(&[Cmp::Exact, Cmp::IgnoreAllWs, Cmp::IgnoreWsAmount]);
        out.config = format!("inputs={n} tok={tok:?} cmp={cmp:?}");
        out.trace = inputs.iter().enumerate().map(|(i, t)| format!("input[{i}] = {:?}", String::from_utf8_lossy(t))).collect();
        let seeds: Vec<u64> = (0..3).map(|_| ch.choose(1 << 20) as u64).collect();
        let mut results = vec![];
        for (i, cfg) in seeds.iter().map(|s| (*s, u64::MAX)).chain([(seeds[0], 0xffu64)]).enumerate() {
            rand_seam::set_hash_seed(cfg.0);
            jj_core::diff::VERIF_HASH_MASK.store(cfg.1, std::sync::atomic::Ordering::SeqCst);
            let inputs2 = inputs.clone();
            // fresh thread: std re-reads the RandomState keys per thread
            let r = std::thread::scope(|s| s.spawn(move || compute(&inputs2, tok, cmp)).join());
            jj_core::diff::VERIF_HASH_MASK.store(u64::MAX, std::sync::atomic::Ordering::SeqCst);
            match r {
                Ok(r) => results.push(r),
                Err(p) => {
                    let msg = p.downcast_ref::<String>().cloned().or_else(|| p.downcast_ref::<&str>().map(|s| s.to_string())).unwrap_or_default();
                    out.violate(prop, "panic", "hashsim:panic".into(), format!("diff panicked under configuration {i} (seed {:#x}, mask {:#x}): {msg}", cfg.0, cfg.1), i as u64);
                    out.choices = ch.record.clone();
                    return out;
                }
            }
        }
        out.events = results.len() as u64;
        out.fault("hash_seed_change", 2);
        out.fault("weak_hash_collisions", 1);
        // invariants on every result
        for (ci, (hunks, ranges)) in results.iter().enumerate() {
            // concatenation reproduces each input
            for (k, input) in inputs.iter().enumerate() {
                let cat: Vec<u8> = hunks.iter().flat_map(|(_, c)| c[k].iter().copied()).collect();
                if cat != *input {
                    out.violate(prop, "hunks_do_not_reproduce_input", "hashsim:hunks_do_not_reproduce_input".into(), format!("configuration {ci}: concatenated hunk slices of input {k} differ from the input"), ci as u64);
                }
                // ranges agree with contents
                let mut pos = 0;
                for ((_, c), (_, r)) in hunks.iter().zip(ranges) {
                    if r[k].start != pos || input.get(r[k].clone()) != Some(&c[k][..]) {
                        out.violate(prop, "hunk_ranges_inconsistent", "hashsim:hunk_ranges_inconsistent".into(), format!("configuration {ci}: hunk_ranges() of input {k} do not tile the input / disagree with hunks()"), ci as u64);
                        break;
                    }
                    pos = r[k].end;
                }
            }
            let mut prev: Option<bool> = None;
            for (matching, contents) in hunks {
                if *matching {
                    for c in &contents[1..] {
                        if !eq_under(cmp, &contents[0], c) {
                            out.violate(prop, "matching_hunk_not_equal", "hashsim:matching_hunk_not_equal".into(), format!("configuration {ci}: a matching hunk has sides {:?} and {:?} which are not equal under {cmp:?}", String::from_utf8_lossy(&contents[0]), String::from_utf8_lossy(c)), ci as u64);
                        }
                    }
                }
                if contents.iter().all(Vec::is_empty) && hunks.len() > 1 {
                    out.violate(prop, "hunk_empty_on_every_side", "hashsim:hunk_empty_on_every_side".into(), format!("configuration {ci}: a hunk is empty on every side"), ci as u64);
                }
                if prev == Some(*matching) {
                    out.violate(prop, "same_kind_twice_in_a_row", "hashsim:same_kind_twice_in_a_row".into(), format!("configuration {ci}: two {} hunks in a row", if *matching { "matching" } else { "differing" }), ci as u64);
                }
                prev = Some(*matching);
            }
        }
        // same hunks on every run
        for (ci, r) in results.iter().enumerate().skip(1) {
            if r.0 != results[0].0 {
                let inv = if ci == 3 { "hunks_depend_on_hash_collisions" } else { "hunks_depend_on_hash_seed" };
                out.violate(
                    prop,
                    inv,
                    format!("hashsim:{inv}"),
                    format!(
                        "hunks under configuration {ci} differ from configuration 0: {:?} vs {:?}",
                        r.0.iter().map(|(m, c)| (*m, c.iter().map(|x| String::from_utf8_lossy(x).into_owned()).collect::<Vec<_>>())).collect::<Vec<_>>(),
                        results[0].0.iter().map(|(m, c)| (*m, c.iter().map(|x| String::from_utf8_lossy(x).into_owned()).collect::<Vec<_>>())).collect::<Vec<_>>()
                    ),
                    ci as u64,
                );
                break;
            }
        }
        let kinds: Vec<bool> = results[0].0.iter().map(|(m, _)| *m).collect();
        out.nontrivial = kinds.contains(&true) && kinds.contains(&false);
        let mut h: u64 = 0xcbf2_9ce4_8422_2325;
        for b in inputs.iter().flat_map(|i| i.iter().copied().chain([0xfe])).chain([tok as u8, cmp as u8]) {
            h ^= u64::from(b);
            h = h.wrapping_mul(0x100_0000_01b3);
        }
        out.signature = h;
        out.probe("multi_input_3plus", u64::from(n >= 3));
        out.choices = ch.record.clone();
        out
    }
}
