//! ConfigSim — per-repo secure config under copy / move / delete histories and
//! arbitrary config-id files (C43).
//!
//! Real code: `jj_lib::secure_config::SecureConfig` on tmpfs. Simulated: the
//! user's file-system operations between loads (recursive copy, move, delete),
//! hostile `config-id` contents, a "crash" between the steps of
//! `generate_config` (its partial states are built by hand), the ChaCha RNG.

use std::collections::BTreeMap;
use std::path::Path;
use std::path::PathBuf;

use jj_lib::secure_config::SecureConfig;
use jj_lib::secure_config::SecureConfigError;
use rand::SeedableRng as _;
use rand_chacha::ChaCha20Rng;

use crate::core::chooser::Chooser;
use crate::core::runner::Budget;
use crate::core::runner::Engine;
use crate::core::runner::RunOutcome;
use crate::core::runner::Tier;

pub struct ConfigSim;

fn copy_dir(from: &Path, to: &Path) {
    std::fs::create_dir_all(to).unwrap();
    for e in std::fs::read_dir(from).unwrap().flatten() {
        let p = e.path();
        let t = to.join(e.file_name());
        let md = std::fs::symlink_metadata(&p).unwrap();
        if md.file_type().is_symlink() {
            let _ = std::os::unix::fs::symlink(std::fs::read_link(&p).unwrap(), &t);
        } else if md.is_dir() {
            copy_dir(&p, &t);
        } else {
            std::fs::copy(&p, &t).unwrap();
        }
    }
}

/// Everything under `dir` (relative path -> bytes or "<dir>" / "<symlink ...>").
fn listing(dir: &Path) -> BTreeMap<String, Vec<u8>> {
    fn walk(base: &Path, d: &Path, out: &mut BTreeMap<String, Vec<u8>>) {
        let Ok(rd) = std::fs::read_dir(d) else { return };
        for e in rd.flatten() {
            let p = e.path();
            let rel = p.strip_prefix(base).unwrap().to_string_lossy().into_owned();
            let Ok(md) = std::fs::symlink_metadata(&p) else { continue };
            if md.file_type().is_symlink() {
                out.insert(rel, format!("<symlink {}>", std::fs::read_link(&p).unwrap().display()).into_bytes());
            } else if md.is_dir() {
                out.insert(rel, b"<dir>".to_vec());
                walk(base, &p, out);
            } else {
                out.insert(rel, std::fs::read(&p).unwrap_or_default());
            }
        }
    }
    let mut out = BTreeMap::new();
    walk(dir, dir, &mut out);
    out
}

#[derive(Clone, Debug)]
struct Repo {
    dir: PathBuf,
    /// id we expect loads to return (None = unknown / must be fresh)
    id: Option<String>,
    /// expected config content behind that id
    content: Option<Vec<u8>>,
    /// the directory this one was copied from; only recorded when the source
    /// had been loaded at its current location (so the stored metadata names it)
    copied_from: Option<PathBuf>,
    /// loaded by jj since it was created / copied / moved to `dir`
    loaded_here: bool,
    hostile: bool,
}

impl Engine for ConfigSim {
    fn name(&self) -> &'static str {
        "configsim"
    }

    fn properties(&self) -> Vec<&'static str> {
        vec!["C43"]
    }

    fn budget(&self, _prop: &str, tier: Tier) -> Budget {
        match tier {
            Tier::Quick => Budget { runs: 30_000, max_seconds: 45 },
            Tier::Thorough => Budget { runs: 3_000_000, max_seconds: 600 },
        }
    }

    fn rule(&self, _prop: &str) -> String {
        "one evaluation = one history of 6-20 steps over up to 5 repository directories sharing one per-user config root: create, load, \
         edit config through the returned path, recursive copy, move, delete the original, plant hostile config-id contents, plant a legacy \
         config, rebuild a partial state of generate_config (crash between its steps); distinct = distinct step-kind sequence hash; \
         non-trivial = the history contains a copy or a hostile/partial state followed by a load"
            .to_string()
    }

    fn components_real(&self) -> Vec<&'static str> {
        vec!["jj_lib::secure_config::SecureConfig (load_config / maybe_load_config, handle_metadata_path, generate_config, legacy migration)", "tmpfs"]
    }

    fn components_stub(&self) -> Vec<&'static str> {
        vec!["ChaCha20Rng seeded by the chooser (the function's own randomness seam)", "crash between steps of generate_config: partial states constructed by the harness"]
    }

    fn assumptions(&self, _prop: &str) -> Vec<String> {
        vec!["read-only copies are not simulated (the sandbox runs as root, for whom directory permissions do not bind)".to_string()]
    }

    fn fault_kinds(&self) -> Vec<&'static str> {
        vec!["hostile_config_id", "crash_in_generate_config", "copied_repo", "moved_repo", "original_deleted"]
    }

    #[allow(clippy::too_many_lines)]
    fn run(&self, prop: &str, mut ch: Chooser, scratch: &Path) -> RunOutcome {
        let mut out = RunOutcome::default();
        let scratch = std::fs::canonicalize(scratch).unwrap();
        let root = scratch.join("userconf").join("repos");
        std::fs::create_dir_all(&root).unwrap();
        let area = scratch.join("area");
        std::fs::create_dir_all(&area).unwrap();
        // a file next to the config root that must never change, and one in the area
        std::fs::write(scratch.join("userconf").join("config.toml"), b"user = true\n").unwrap();
        std::fs::write(scratch.join("secret.toml"), b"secret\n").unwrap();
        let mut rng = ChaCha20Rng::seed_from_u64(ch.choose(1 << 16) as u64);
        let mut repos: Vec<Repo> = vec![];
        let mut kinds: Vec<u8> = vec![];
        let mut next = 0usize;
        let steps = ch.range(6, 20);
        let mut nontrivial = false;
        let mut seq = 0u64;
        let mut trace: Vec<String> = vec![];
        macro_rules! note {
            ($($a:tt)*) => {{ seq += 1; trace.push(format!("{:04} {}", seq, format!($($a)*))); }};
        }
        let outside_before = (listing(&scratch.join("userconf")), std::fs::read(scratch.join("secret.toml")).unwrap());
        for _ in 0..steps {
            let k = if repos.is_empty() { 0 } else { ch.weighted(&[2, 6, 3, 3, 2, 2, 2, 1, 2]) };
            kinds.push(k as u8);
            match k {
                0 => {
                    let dir = area.join(format!("r{next}"));
                    next += 1;
                    std::fs::create_dir_all(&dir).unwrap();
                    note!("create {}", dir.file_name().unwrap().to_string_lossy());
                    repos.push(Repo { dir, id: None, content: None, copied_from: None, loaded_here: false, hostile: false });
                }
                1 => {
                    // load (fresh process image: new SecureConfig)
                    let i = ch.choose(repos.len());
                    let r = repos[i].clone();
                    let before_root = listing(&root);
                    let sc = SecureConfig::new_repo(r.dir.clone());
                    let res = if ch.chance(1, 3) { sc.maybe_load_config(&mut rng, &root) } else { sc.load_config(&mut rng, &root) };
                    match res {
                        Ok(loaded) => {
                            let name = r.dir.file_name().unwrap().to_string_lossy().into_owned();
                            note!("load {name} -> {:?} warnings={}", loaded.config_file.as_ref().map(|p| p.strip_prefix(&scratch).unwrap_or(p).display().to_string()), loaded.warnings.len());
                            if r.hostile {
                                out.violate(prop, "hostile_config_id_accepted", "configsim:hostile_config_id_accepted".into(), format!("repo {name} has a malformed config-id but loading succeeded with {:?}", loaded.config_file), seq);
                                break;
                            }
                            if let Some(cf) = &loaded.config_file {
                                // (a) inside the root, named by a 20-hex id
                                let ok_shape = cf.parent().and_then(Path::parent) == Some(root.as_path())
                                    && cf.file_name().is_some_and(|n| n == "config.toml")
                                    && cf.parent().and_then(Path::file_name).is_some_and(|n| {
                                        let n = n.to_string_lossy();
                                        n.len() == 20 && n.chars().all(|c| c.is_ascii_hexdigit())
                                    });
                                if !ok_shape {
                                    out.violate(prop, "config_path_outside_root", "configsim:config_path_outside_root".into(), format!("repo {name}: config file {} is not <root>/<20 hex>/config.toml", cf.display()), seq);
                                    break;
                                }
                                let id = cf.parent().unwrap().file_name().unwrap().to_string_lossy().into_owned();
                                // (c) a copy whose original still exists (and is known to
                                // jj under that path) must not share the id
                                let src = r.copied_from.as_ref().and_then(|d| repos.iter().find(|q| q.dir == *d && q.loaded_here && q.dir.is_dir()).cloned());
                                if let Some(orig) = src {
                                    let orig_id = orig.id.clone().unwrap_or_default();
                                    if orig_id == id {
                                        out.violate(
                                            prop,
                                            "copy_shares_config_with_original",
                                            "configsim:copy_shares_config_with_original".into(),
                                            format!("repo {name} was copied from {} (which still exists and was loaded there) but loads the same config id {id}", orig.dir.display()),
                                            seq,
                                        );
                                        break;
                                    }
                                    // its content is a copy of what the original had at this moment
                                    let want = before_root.get(&format!("{orig_id}/config.toml")).cloned();
                                    let got = std::fs::read(cf).ok();
                                    if want.is_some() && got != want {
                                        out.violate(prop, "copied_config_content_differs", "configsim:copied_config_content_differs".into(), format!("repo {name}: copied config has {:?}, the original's config was {:?}", got.map(|b| String::from_utf8_lossy(&b).into_owned()), want.map(|b| String::from_utf8_lossy(&b).into_owned())), seq);
                                        break;
                                    }
                                    // and the original's file is untouched
                                    if std::fs::read(root.join(&orig_id).join("config.toml")).ok() != before_root.get(&format!("{orig_id}/config.toml")).cloned() {
                                        out.violate(prop, "copy_load_changed_original_config", "configsim:copy_load_changed_original_config".into(), format!("loading the copy {name} changed the original's config file"), seq);
                                        break;
                                    }
                                    out.probe("copy_got_own_config", 1);
                                    nontrivial = true;
                                } else if r.loaded_here {
                                    // (d) same repo at the same place: same id, same content
                                    if let Some(want_id) = &r.id
                                        && *want_id != id
                                    {
                                        out.violate(prop, "config_id_changed", "configsim:config_id_changed".into(), format!("repo {name}: config id changed from {want_id} to {id} although the repo was neither copied nor moved"), seq);
                                        break;
                                    }
                                }
                                if let Some(want) = &r.content {
                                    let got = std::fs::read(cf).ok();
                                    if got.as_ref() != Some(want) {
                                        out.violate(prop, "config_content_lost", "configsim:config_content_lost".into(), format!("repo {name}: config content is {:?}, expected {:?}", got.map(|b| String::from_utf8_lossy(&b).into_owned()), String::from_utf8_lossy(want)), seq);
                                        break;
                                    }
                                }
                                // two repositories that jj both loaded where they are never share a config
                                if let Some(q) = repos.iter().find(|q| q.dir != r.dir && q.loaded_here && q.dir.is_dir() && q.id.as_deref() == Some(id.as_str())) {
                                    out.violate(prop, "two_loaded_repos_share_config", "configsim:two_loaded_repos_share_config".into(), format!("repos {name} and {} both load config id {id}", q.dir.file_name().unwrap().to_string_lossy()), seq);
                                    break;
                                }
                                repos[i].id = Some(id);
                                repos[i].copied_from = None;
                                repos[i].loaded_here = true;
                                repos[i].content = std::fs::read(cf).ok();
                            }
                            // other repos' configs are untouched by this load
                            let after_root = listing(&root);
                            for other in &repos {
                                if other.dir == r.dir {
                                    continue;
                                }
                                if let Some(oid) = &other.id {
                                    let key = format!("{oid}/config.toml");
                                    if before_root.get(&key) != after_root.get(&key) && other.copied_from.is_none() {
                                        out.violate(prop, "load_changed_other_repos_config", "configsim:load_changed_other_repos_config".into(), format!("loading {name} changed {key}"), seq);
                                    }
                                }
                            }
                        }
                        Err(e) => {
                            let name = r.dir.file_name().unwrap().to_string_lossy().into_owned();
                            note!("load {name} -> Err({e})");
                            if matches!(e, SecureConfigError::BadConfigIdError) && r.hostile {
                                out.probe("hostile_config_id_rejected", 1);
                                nontrivial = true;
                                if listing(&root) != before_root {
                                    out.violate(prop, "rejected_load_wrote_files", "configsim:rejected_load_wrote_files".into(), format!("loading {name} failed with BadConfigIdError but changed the config root"), seq);
                                    break;
                                }
                            } else if r.hostile {
                                // any error is acceptable for hostile input
                                out.probe("hostile_config_id_other_error", 1);
                            } else if !r.dir.is_dir() {
                                // deleted repo: nothing to load
                            } else {
                                out.violate(prop, "load_failed", "configsim:load_failed".into(), format!("loading {name} failed: {e}"), seq);
                                break;
                            }
                        }
                    }
                }
                2 => {
                    // edit the config through the path jj gave us
                    let i = ch.choose(repos.len());
                    if let Some(id) = repos[i].id.clone()
                        && repos[i].loaded_here
                        && !repos[i].hostile
                    {
                        let content = format!("edited = {}\n", ch.choose(1000)).into_bytes();
                        let p = root.join(&id).join("config.toml");
                        if p.parent().unwrap().is_dir() {
                            std::fs::write(&p, &content).unwrap();
                            note!("edit config of {} ({id})", repos[i].dir.file_name().unwrap().to_string_lossy());
                            // every repo that legitimately shares this id (the same repo moved) sees it
                            let dir = repos[i].dir.clone();
                            for r in repos.iter_mut() {
                                if r.dir == dir {
                                    r.content = Some(content.clone());
                                } else if r.id.as_deref() == Some(id.as_str()) || std::fs::read_to_string(r.dir.join("config-id")).ok().as_deref() == Some(id.as_str()) {
                                    // a not-yet-reloaded copy / moved twin: what it will see is open
                                    r.content = None;
                                }
                            }
                        }
                    }
                }
                3 => {
                    // recursive copy
                    let i = ch.choose(repos.len());
                    let src = repos[i].clone();
                    if src.dir.is_dir() {
                        let dir = area.join(format!("r{next}"));
                        next += 1;
                        copy_dir(&src.dir, &dir);
                        note!("copy {} -> {}", src.dir.file_name().unwrap().to_string_lossy(), dir.file_name().unwrap().to_string_lossy());
                        out.fault("copied_repo", 1);
                        repos.push(Repo {
                            dir,
                            id: None,
                            content: None,
                            copied_from: if src.loaded_here && !src.hostile { Some(src.dir.clone()) } else { None },
                            loaded_here: false,
                            hostile: src.hostile,
                        });
                    }
                }
                4 => {
                    // move
                    let i = ch.choose(repos.len());
                    if repos[i].dir.is_dir() {
                        let dir = area.join(format!("r{next}"));
                        next += 1;
                        std::fs::rename(&repos[i].dir, &dir).unwrap();
                        note!("move {} -> {}", repos[i].dir.file_name().unwrap().to_string_lossy(), dir.file_name().unwrap().to_string_lossy());
                        out.fault("moved_repo", 1);
                        let old = repos[i].dir.clone();
                        repos[i].dir = dir;
                        repos[i].loaded_here = false;
                        // whoever loads first (this repo or a copy of it) keeps the id
                        let id_file = std::fs::read_to_string(repos[i].dir.join("config-id")).ok();
                        let twin = repos.iter().enumerate().any(|(j, q)| j != i && q.dir.is_dir() && std::fs::read_to_string(q.dir.join("config-id")).ok() == id_file);
                        if twin {
                            repos[i].id = None;
                            repos[i].content = None;
                        }
                        for r in repos.iter_mut() {
                            if r.copied_from.as_ref() == Some(&old) {
                                r.copied_from = None;
                            }
                        }
                    }
                }
                5 => {
                    // delete a repo
                    let i = ch.choose(repos.len());
                    if repos[i].dir.is_dir() {
                        std::fs::remove_dir_all(&repos[i].dir).unwrap();
                        note!("delete {}", repos[i].dir.file_name().unwrap().to_string_lossy());
                        out.fault("original_deleted", 1);
                        let old = repos[i].dir.clone();
                        for r in repos.iter_mut() {
                            if r.copied_from.as_ref() == Some(&old) {
                                r.copied_from = None;
                            }
                        }
                        repos.remove(i);
                    }
                }
                6 => {
                    // hostile config-id
                    let i = ch.choose(repos.len());
                    if repos[i].dir.is_dir() {
                        let bad: &[&[u8]] = &[
                            b"",
                            b"../../secret",
                            b"/etc",
                            b"0123456789abcdef012",
                            b"0123456789abcdef01234",
                            b"0123456789abcdef012g",
                            b"0123456789abcdef0123\n",
                            b"..",
                            b"0123456789/../abcdef",
                            b"\xff\xfe0123456789abcdef01",
                        ];
                        let content = bad[ch.choose(bad.len())];
                        let _ = std::fs::remove_file(repos[i].dir.join("config-id"));
                        std::fs::write(repos[i].dir.join("config-id"), content).unwrap();
                        note!("plant hostile config-id {:?} in {}", String::from_utf8_lossy(content), repos[i].dir.file_name().unwrap().to_string_lossy());
                        out.fault("hostile_config_id", 1);
                        repos[i].hostile = true;
                        repos[i].loaded_here = false;
                        repos[i].id = None;
                        repos[i].content = None;
                        repos[i].copied_from = None;
                    }
                }
                7 => {
                    // legacy config in a repo without id
                    let i = ch.choose(repos.len());
                    if repos[i].dir.is_dir() && repos[i].id.is_none() && !repos[i].hostile && !repos[i].dir.join("config-id").exists() {
                        let content = format!("legacy = {}\n", ch.choose(100)).into_bytes();
                        std::fs::write(repos[i].dir.join("config.toml"), &content).unwrap();
                        note!("plant legacy config in {}", repos[i].dir.file_name().unwrap().to_string_lossy());
                        repos[i].content = Some(content);
                    }
                }
                _ => {
                    // crash inside generate_config: a partial new config dir exists,
                    // the repo's config-id was not (yet) updated
                    let id: String = (0..20).map(|_| char::from_digit(ch.choose(16) as u32, 16).unwrap()).collect();
                    let d = root.join(&id);
                    let stage = ch.choose(3);
                    std::fs::create_dir_all(&d).unwrap();
                    if stage >= 1 {
                        // metadata pointing at some repo
                        let i = ch.choose(repos.len());
                        let md = jj_lib::protos::secure_config::ConfigMetadata {
                            path: Some(repos[i].dir.to_string_lossy().as_bytes().to_vec()),
                        };
                        use prost_like::Encode as _;
                        std::fs::write(d.join("metadata.binpb"), md.encode_bytes()).unwrap();
                    }
                    if stage >= 2 {
                        std::fs::write(d.join("config.toml"), b"partial = true\n").unwrap();
                    }
                    note!("crash inside generate_config: orphan {id} at stage {stage}");
                    out.fault("crash_in_generate_config", 1);
                    nontrivial = true;
                }
            }
            if !out.violations.is_empty() {
                break;
            }
        }
        // nothing outside the config root and the repo area was touched
        let outside_after = (listing(&scratch.join("userconf")), std::fs::read(scratch.join("secret.toml")).unwrap_or_default());
        let strip = |m: &BTreeMap<String, Vec<u8>>| -> BTreeMap<String, Vec<u8>> { m.iter().filter(|(k, _)| !k.starts_with("repos")).map(|(k, v)| (k.clone(), v.clone())).collect() };
        if strip(&outside_before.0) != strip(&outside_after.0) || outside_before.1 != outside_after.1 {
            out.violate(prop, "wrote_outside_config_root", "configsim:wrote_outside_config_root".into(), "files outside <root> changed".to_string(), seq);
        }
        out.trace = trace;
        out.events = seq;
        out.nontrivial = nontrivial;
        let mut h: u64 = 0xcbf2_9ce4_8422_2325;
        for k in &kinds {
            h ^= u64::from(*k);
            h = h.wrapping_mul(0x100_0000_01b3);
        }
        out.signature = h;
        out.choices = ch.record.clone();
        out
    }
}

/// prost's `Message::encode_to_vec` without depending on prost directly.
mod prost_like {
    pub trait Encode {
        fn encode_bytes(&self) -> Vec<u8>;
    }
    impl Encode for jj_lib::protos::secure_config::ConfigMetadata {
        fn encode_bytes(&self) -> Vec<u8> {
            // message ConfigMetadata { optional bytes path = 1; }
            let mut out = vec![];
            if let Some(p) = &self.path {
                out.push(0x0a);
                let mut n = p.len();
                loop {
                    let b = (n & 0x7f) as u8;
                    n >>= 7;
                    if n == 0 {
                        out.push(b);
                        break;
                    }
                    out.push(b | 0x80);
                }
                out.extend_from_slice(p);
            }
            out
        }
    }
}
