//! GitSim — jj and a second Git party on the same Git repository (C34).
//!
//! Actors are scheduled at operation granularity by the chooser: *jj* moves,
//! creates and deletes local bookmarks (each in its own committed
//! transaction) and runs `git::import_refs` / `git::export_refs`; *external
//! git* creates, moves and deletes `refs/heads/*` (and new commits) directly
//! in the backing Git repository through gix. The oracle is the classic
//! three-value model per bookmark: jj's target J, Git's ref G and the base B
//! both sides last agreed on.

use std::collections::BTreeMap;
use std::path::Path;
use std::sync::Arc;

use jj_lib::backend::CommitId;
use jj_lib::commit::Commit;
use jj_lib::git;
use jj_lib::git::GitImportOptions;
use jj_lib::git_backend::GitBackend;
use jj_lib::object_id::ObjectId as _;
use jj_lib::op_store::RefTarget;
use jj_lib::ref_name::RefNameBuf;
use jj_lib::repo::ReadonlyRepo;
use jj_lib::repo::Repo as _;
use jj_lib::settings::UserSettings;
use jj_lib::signing::Signer;
use pollster::FutureExt as _;

use crate::core::chooser::Chooser;
use crate::core::runner::Budget;
use crate::core::runner::Engine;
use crate::core::runner::RunOutcome;
use crate::core::runner::Tier;

pub struct GitSim;

fn settings(seed: u64, n: u64) -> UserSettings {
    let text = format!(
        r#"
user.name = "Sim User"
user.email = "sim.user@example.com"
operation.username = "sim"
operation.hostname = "sim.example.com"
debug.randomness-seed = {seed}
debug.commit-timestamp = "2001-02-03T04:{:02}:{:02}+00:00"
debug.operation-timestamp = "2001-02-03T04:{:02}:{:02}+00:00"
"#,
        (n / 60) % 60,
        n % 60,
        (n / 60) % 60,
        n % 60
    );
    let mut config = jj_lib::config::StackedConfig::with_defaults();
    config.add_layer(jj_lib::config::ConfigLayer::parse(jj_lib::config::ConfigSource::User, &text).unwrap());
    UserSettings::from_config(config).unwrap()
}

fn short(id: &CommitId) -> String {
    id.hex()[..8].to_string()
}

fn show_target(t: &RefTarget) -> String {
    if t.is_absent() {
        "absent".to_string()
    } else if let Some(id) = t.as_normal() {
        short(id)
    } else {
        format!(
            "conflict(adds {:?} removes {:?})",
            t.as_merge().adds().map(|a| a.as_ref().map_or("absent".to_string(), short)).collect::<Vec<_>>(),
            t.as_merge().removes().map(|a| a.as_ref().map_or("absent".to_string(), short)).collect::<Vec<_>>()
        )
    }
}

fn git_ref_of(repo: &gix::Repository, name: &str) -> Option<CommitId> {
    let r = repo.try_find_reference(&format!("refs/heads/{name}")).ok()??;
    let id = r.into_fully_peeled_id().ok()?;
    Some(CommitId::from_bytes(id.as_bytes()))
}

struct World {
    repo: Arc<ReadonlyRepo>,
    n: u64,
    seed: u64,
    import_options: GitImportOptions,
}

impl World {
    fn git(&self) -> gix::Repository {
        // a fresh handle: no stale packed-refs / object caches
        let backend: &GitBackend = self.repo.store().backend_impl().unwrap();
        gix::open(backend.git_repo_path()).unwrap()
    }

    fn tx<T>(&mut self, desc: &str, f: impl FnOnce(&mut jj_lib::repo::MutableRepo) -> T) -> T {
        self.n += 1;
        let s = settings(self.seed + self.n, self.n);
        // reload with fresh settings so that timestamps/ids differ per operation
        let loader = jj_lib::repo::RepoLoader::init_from_file_system(&s, self.repo_dir(), &jj_lib::default_backend_factories::default_backend_factories()).unwrap();
        let repo = loader.load_at_head().block_on().unwrap();
        let mut tx = repo.start_transaction();
        let r = f(tx.repo_mut());
        tx.repo_mut().rebase_descendants().block_on().unwrap();
        self.repo = tx.commit(desc).block_on().unwrap();
        r
    }

    fn repo_dir(&self) -> &Path {
        // <repo_dir>/store/git -> repo_dir
        let backend: &GitBackend = self.repo.store().backend_impl().unwrap();
        backend.git_repo_path().parent().unwrap().parent().unwrap()
    }
}

#[derive(Clone, Debug, PartialEq, Eq)]
struct Model {
    /// base both sides last agreed on (what jj recorded for the git ref)
    base: Option<CommitId>,
}

impl Engine for GitSim {
    fn name(&self) -> &'static str {
        "gitsim"
    }

    fn properties(&self) -> Vec<&'static str> {
        vec!["C34"]
    }

    fn budget(&self, _prop: &str, tier: Tier) -> Budget {
        match tier {
            Tier::Quick => Budget { runs: 1_500, max_seconds: 75 },
            Tier::Thorough => Budget { runs: 150_000, max_seconds: 1200 },
        }
    }

    fn rule(&self, _prop: &str) -> String {
        "one evaluation = one history of 8-30 operations by two actors on one Git-backed repository: jj bookmark set/delete, external git \
         branch create/move/delete (also onto commits jj has never seen), standalone import, standalone export, and sync (import then export, \
         followed by a second import); distinct = distinct operation-kind sequence hash; non-trivial = some bookmark was changed on both \
         sides between two syncs"
            .to_string()
    }

    fn components_real(&self) -> Vec<&'static str> {
        vec!["jj_lib::git (import_refs, export_refs, diff_refs_to_import/export)", "jj_lib::git_backend + gix", "jj_lib::repo / transaction / simple op store", "tmpfs"]
    }

    fn components_stub(&self) -> Vec<&'static str> {
        vec!["the second party: ref and commit writes through gix instead of a `git` process", "actor scheduling at operation granularity (chooser)"]
    }

    fn assumptions(&self, _prop: &str) -> Vec<String> {
        vec![
            "bookmark names are flat (no a vs a/b ref clashes, no HEAD), so every non-conflicted bookmark is exportable".to_string(),
            "with git.abandon-unreachable-commits on, a branch deletion on the Git side may abandon commits and move other bookmarks; those runs assert convergence and idempotence only".to_string(),
        ]
    }

    fn fault_kinds(&self) -> Vec<&'static str> {
        vec!["concurrent_change_both_sides", "external_commit_unknown_to_jj", "abandon_unreachable_commits"]
    }

    #[allow(clippy::too_many_lines)]
    fn run(&self, prop: &str, mut ch: Chooser, scratch: &Path) -> RunOutcome {
        let mut out = RunOutcome::default();
        let repo_dir = scratch.join("repo");
        std::fs::create_dir_all(&repo_dir).unwrap();
        let seed = 100 + ch.choose(1000) as u64;
        let s0 = settings(seed, 0);
        let repo = ReadonlyRepo::init(
            &s0,
            &repo_dir,
            &|settings, store_path| Ok(Box::new(GitBackend::init_internal(settings, store_path, gix::hash::Kind::default()).map_err(|e| jj_lib::backend::BackendInitError(e.into()))?)),
            Signer::from_settings(&s0).unwrap(),
            ReadonlyRepo::default_op_store_initializer(),
            ReadonlyRepo::default_op_heads_store_initializer(),
            ReadonlyRepo::default_index_store_initializer(),
            ReadonlyRepo::default_submodule_store_initializer(),
        )
        .block_on()
        .unwrap();
        let abandon = ch.chance(1, 4);
        let mut w = World {
            repo,
            n: 0,
            seed,
            import_options: GitImportOptions {
                abandon_unreachable_commits: abandon,
                record_synthetic_predecessors: true,
                remote_auto_track_bookmarks: Default::default(),
            },
        };
        out.config = format!("abandon_unreachable_commits={abandon}");
        if abandon {
            out.fault("abandon_unreachable_commits", 1);
        }
        // a small commit pool: a <- b <- c, a <- d, e (root child)
        let pool: Vec<Commit> = w.tx("pool", |m| {
            let root = m.store().root_commit();
            let mk = |m: &mut jj_lib::repo::MutableRepo, p: &Commit, d: &str| m.new_commit(vec![p.id().clone()], p.tree()).set_description(d).write().block_on().unwrap();
            let a = mk(m, &root, "a");
            let b = mk(m, &a, "b");
            let c = mk(m, &b, "c");
            let d = mk(m, &a, "d");
            let e = mk(m, &root, "e");
            vec![a, b, c, d, e]
        });
        let mut pool_ids: Vec<CommitId> = pool.iter().map(|c| c.id().clone()).collect();
        // jj keeps its commits alive in git via refs/jj/keep; nothing else needed
        let names = ["b0", "b1", "b2"];
        let mut model: BTreeMap<&str, Model> = names.iter().map(|n| (*n, Model { base: None })).collect();
        let mut both_changed = 0u64;
        let mut trace: Vec<String> = vec![];
        let mut seq = 0u64;
        let mut kinds: Vec<u8> = vec![];
        macro_rules! note {
            ($($a:tt)*) => {{ seq += 1; trace.push(format!("{:04} {}", seq, format!($($a)*))); }};
        }
        let steps = ch.range(8, 30);
        'steps: for _ in 0..steps {
            let k = ch.weighted(&[5, 5, 4, 1, 1]);
            kinds.push(k as u8);
            match k {
                0 => {
                    // jj: set / delete a local bookmark
                    let name = names[ch.choose(names.len())];
                    let rn: RefNameBuf = name.into();
                    if w.repo.view().get_local_bookmark(&rn).has_conflict() && ch.chance(1, 2) {
                        continue;
                    }
                    let target = if ch.chance(1, 5) { None } else { Some(pool_ids[ch.choose(pool_ids.len())].clone()) };
                    // only commits jj knows
                    if let Some(t) = &target
                        && !w.repo.index().has_id(t).block_on().unwrap_or(false)
                    {
                        continue;
                    }
                    w.tx("set bookmark", |m| {
                        m.set_local_bookmark_target(&rn, target.clone().map_or(RefTarget::absent(), RefTarget::normal));
                    });
                    note!("jj  set {name} -> {}", target.as_ref().map_or("absent".to_string(), short));
                }
                1 => {
                    // git: create / move / delete a branch, sometimes onto a brand-new commit
                    let name = names[ch.choose(names.len())];
                    let g = w.git();
                    let full = format!("refs/heads/{name}");
                    match ch.weighted(&[5, 2, 2]) {
                        0 => {
                            let t = pool_ids[ch.choose(pool_ids.len())].clone();
                            let oid = gix::ObjectId::from_bytes_or_panic(t.as_bytes());
                            g.reference(full.as_str(), oid, gix::refs::transaction::PreviousValue::Any, "sim").unwrap();
                            note!("git set {name} -> {}", short(&t));
                        }
                        1 => {
                            if let Ok(r) = g.find_reference(full.as_str()) {
                                r.delete().unwrap();
                                note!("git delete {name}");
                            }
                        }
                        _ => {
                            // a commit made by git alone
                            let parent = pool_ids[ch.choose(pool_ids.len())].clone();
                            let poid = gix::ObjectId::from_bytes_or_panic(parent.as_bytes());
                            let tree = g.find_commit(poid).unwrap().tree_id().unwrap().detach();
                            let sig = gix::actor::Signature {
                                name: "Ext".into(),
                                email: "ext@example.com".into(),
                                time: gix::date::Time::new(1_000_000 + seq as i64, 0),
                            };
                            // gix insists that an existing ref equals the first parent
                            if let Ok(r) = g.find_reference(full.as_str()) {
                                r.delete().unwrap();
                            }
                            let mut buf = gix::date::parse::TimeBuf::default();
                            let mut buf2 = gix::date::parse::TimeBuf::default();
                            let new = g
                                .commit_as(sig.to_ref(&mut buf), sig.to_ref(&mut buf2), full.as_str(), format!("ext {seq}"), tree, [poid])
                                .unwrap()
                                .detach();
                            let id = CommitId::from_bytes(new.as_bytes());
                            pool_ids.push(id.clone());
                            out.fault("external_commit_unknown_to_jj", 1);
                            note!("git commit on {} and set {name} -> {}", short(&parent), short(&id));
                        }
                    }
                }
                _ => {
                    // 2 = sync (import, export, second import), 3 = import only, 4 = export only
                    let g = w.git();
                    let before: BTreeMap<&str, (RefTarget, Option<CommitId>)> = names
                        .iter()
                        .map(|n| {
                            let rn: RefNameBuf = (*n).into();
                            (*n, (w.repo.view().get_local_bookmark(&rn).clone(), git_ref_of(&g, n)))
                        })
                        .collect();
                    drop(g);
                    let do_import = k != 4;
                    let do_export = k != 3;
                    let mut exp_failed: Vec<String> = vec![];
                    if do_import {
                        let opts = GitImportOptions {
                            abandon_unreachable_commits: w.import_options.abandon_unreachable_commits,
                            record_synthetic_predecessors: true,
                            remote_auto_track_bookmarks: Default::default(),
                        };
                        let res = w.tx("import", |m| git::import_refs(m, &opts).block_on().map(|_| ()));
                        if let Err(e) = res {
                            out.violate(prop, "import_failed", "gitsim:import_failed".into(), format!("import_refs failed: {e}"), seq);
                            break 'steps;
                        }
                    }
                    // state between import and export
                    let mid: BTreeMap<&str, RefTarget> = names
                        .iter()
                        .map(|n| {
                            let rn: RefNameBuf = (*n).into();
                            (*n, w.repo.view().get_local_bookmark(&rn).clone())
                        })
                        .collect();
                    if do_export {
                        let res = w.tx("export", |m| git::export_refs(m));
                        match res {
                            Ok(stats) => {
                                exp_failed = stats.failed_bookmarks.iter().map(|(s, _)| s.name.as_str().to_string()).collect();
                            }
                            Err(e) => {
                                out.violate(prop, "export_failed", "gitsim:export_failed".into(), format!("export_refs failed: {e}"), seq);
                                break 'steps;
                            }
                        }
                    }
                    note!("jj  {}", ["", "", "sync (import; export)", "import", "export"][k]);
                    let g = w.git();
                    let graph_is_anc = |a: &CommitId, b: &CommitId| -> bool { w.repo.index().is_ancestor(a, b).block_on().unwrap_or(false) };
                    for n in names {
                        let rn: RefNameBuf = n.into();
                        let j_after = w.repo.view().get_local_bookmark(&rn).clone();
                        let g_after = git_ref_of(&g, n);
                        let (j_before, g_before) = before[n].clone();
                        let base = model[n].base.clone();
                        let jb = j_before.as_resolved().cloned();
                        let jj_changed = jb.as_ref() != Some(&base);
                        let git_changed = g_before != base;
                        if jj_changed && git_changed && jb.as_ref() != Some(&g_before) {
                            both_changed += 1;
                        }
                        note!(
                            "    {n}: base {} | jj {} -> {} | git {} -> {}{}",
                            base.as_ref().map_or("absent".to_string(), short),
                            show_target(&j_before),
                            show_target(&j_after),
                            g_before.as_ref().map_or("absent".to_string(), short),
                            g_after.as_ref().map_or("absent".to_string(), short),
                            if exp_failed.iter().any(|f| f == n) { " (export failed)" } else { "" }
                        );
                        if abandon {
                            // only convergence below
                        } else if do_import {
                            // ---- what import must do to jj's bookmark
                            let j_mid = &mid[n];
                            let expect_mid: Option<RefTarget> = if !git_changed {
                                Some(j_before.clone())
                            } else if !jj_changed {
                                Some(g_before.clone().map_or(RefTarget::absent(), RefTarget::normal))
                            } else if jb.as_ref() == Some(&g_before) {
                                Some(j_before.clone())
                            } else {
                                None
                            };
                            match expect_mid {
                                Some(e) => {
                                    if *j_mid != e {
                                        let inv = if !git_changed { "import_changed_untouched_bookmark" } else if !jj_changed { "git_change_not_propagated" } else { "identical_change_not_kept" };
                                        out.violate(prop, inv, format!("gitsim:{inv}"), format!("{n}: base {:?}, jj {}, git {:?}; after import jj has {}, expected {}", base.as_ref().map(short), show_target(&j_before), g_before.as_ref().map(short), show_target(j_mid), show_target(&e)), seq);
                                        break 'steps;
                                    }
                                }
                                None => {
                                    // both changed differently: conflict with both values, or a fast-forward
                                    if let Some(jv) = jb.clone() {
                                        let ok = if j_mid.has_conflict() {
                                            let adds: Vec<Option<CommitId>> = j_mid.as_merge().adds().cloned().collect();
                                            adds.contains(&jv) && adds.contains(&g_before)
                                        } else {
                                            let r = j_mid.as_resolved().cloned().unwrap();
                                            let ff = |win: &Option<CommitId>, lose: &Option<CommitId>| match (win, lose) {
                                                (Some(w_), Some(l)) => graph_is_anc(l, w_),
                                                _ => false,
                                            };
                                            (r == jv && ff(&jv, &g_before)) || (r == g_before && ff(&g_before, &jv))
                                        };
                                        if !ok {
                                            out.violate(prop, "conflicting_change_overwritten", "gitsim:conflicting_change_overwritten".into(), format!("{n}: base {:?}, jj moved it to {:?}, git moved it to {:?}; after import jj has {}", base.as_ref().map(short), jv.as_ref().map(short), g_before.as_ref().map(short), show_target(j_mid)), seq);
                                            break 'steps;
                                        }
                                        out.probe("both_sides_changed_checked", 1);
                                    }
                                }
                            }
                        }
                        // ---- after export (or sync): git equals jj's non-conflicted bookmark
                        if do_export && do_import {
                            if !j_after.has_conflict() {
                                let jv = j_after.as_resolved().cloned().unwrap();
                                if g_after != jv {
                                    out.violate(prop, "git_ref_differs_from_bookmark_after_sync", "gitsim:git_ref_differs_from_bookmark_after_sync".into(), format!("{n}: after import+export jj has {}, git has {:?}", show_target(&j_after), g_after.as_ref().map(short)), seq);
                                    break 'steps;
                                }
                            } else if g_after != g_before {
                                out.violate(prop, "git_ref_moved_for_conflicted_bookmark", "gitsim:git_ref_moved_for_conflicted_bookmark".into(), format!("{n}: bookmark is conflicted ({}), but the git ref moved from {:?} to {:?}", show_target(&j_after), g_before.as_ref().map(short), g_after.as_ref().map(short)), seq);
                                break 'steps;
                            }
                        }
                        if do_export && !do_import && !abandon {
                            // export alone: writes jj's value iff git still is where jj last saw it
                            let exportable = !j_before.has_conflict() && (g_before == base || jb.as_ref() == Some(&g_before));
                            if exportable {
                                if g_after != jb.clone().unwrap() {
                                    out.violate(prop, "jj_change_not_exported", "gitsim:jj_change_not_exported".into(), format!("{n}: git ref was at the recorded base, jj has {}, after export git has {:?}", show_target(&j_before), g_after.as_ref().map(short)), seq);
                                    break 'steps;
                                }
                            } else if g_after != g_before {
                                out.violate(prop, "export_overwrote_git_change", "gitsim:export_overwrote_git_change".into(), format!("{n}: git ref had moved to {:?} behind jj's back (base {:?}); export changed it to {:?}", g_before.as_ref().map(short), base.as_ref().map(short), g_after.as_ref().map(short)), seq);
                                break 'steps;
                            }
                            if j_after != j_before {
                                out.violate(prop, "export_changed_bookmark", "gitsim:export_changed_bookmark".into(), format!("{n}: export changed jj's bookmark from {} to {}", show_target(&j_before), show_target(&j_after)), seq);
                                break 'steps;
                            }
                        }
                        // ---- model update: the new base
                        let new_base = if do_import && do_export {
                            g_after.clone()
                        } else if do_import {
                            g_before.clone()
                        } else if g_after != g_before || jb.as_ref() == Some(&g_before) {
                            g_after.clone()
                        } else {
                            base.clone()
                        };
                        model.get_mut(n).unwrap().base = new_base;
                    }
                    // second import changes nothing
                    if do_import && do_export {
                        let view_before = w.repo.view().store_view().clone();
                        let opts = GitImportOptions {
                            abandon_unreachable_commits: w.import_options.abandon_unreachable_commits,
                            record_synthetic_predecessors: true,
                            remote_auto_track_bookmarks: Default::default(),
                        };
                        let _ = w.tx("second import", |m| git::import_refs(m, &opts).block_on().map(|_| ()));
                        if *w.repo.view().store_view() != view_before {
                            let changed: Vec<String> = names
                                .iter()
                                .filter(|n| {
                                    let rn: RefNameBuf = (**n).into();
                                    w.repo.view().get_local_bookmark(&rn) != view_before.local_bookmarks.get(&rn).unwrap_or(RefTarget::absent_ref())
                                })
                                .map(|n| (*n).to_string())
                                .collect();
                            out.violate(prop, "second_import_not_idempotent", "gitsim:second_import_not_idempotent".into(), format!("importing again right after import+export changed the view (bookmarks changed: {changed:?})"), seq);
                            break 'steps;
                        }
                        out.probe("sync_checked", 1);
                    }
                }
            }
        }
        out.fault("concurrent_change_both_sides", both_changed);
        out.nontrivial = both_changed > 0;
        out.events = seq;
        out.trace = trace;
        let mut h: u64 = 0xcbf2_9ce4_8422_2325;
        for k in &kinds {
            h ^= u64::from(*k);
            h = h.wrapping_mul(0x100_0000_01b3);
        }
        h ^= both_changed.min(7);
        out.signature = h;
        out.choices = ch.record.clone();
        out
    }
}
