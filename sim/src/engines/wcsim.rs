//! WcSim — the working copy against a disk that someone else edits, under a
//! coarse simulated file-system clock (C06 C23 C24 C25 C26 C27 C29).
//!
//! Real code: `jj_lib::local_working_copy::TreeState` (snapshot, check_out,
//! set_sparse_patterns, save/load), the simple backend, conflict
//! materialisation, EOL conversion, gitignore handling, on a tmpfs directory.
//! Simulated: the file-system clock as jj sees it (hook H3): every inode
//! carries the tick at which it was last written; ticks advance only when the
//! seeded chooser says so, so jj's own writes, the state file and user edits
//! can share one tick (timestamps "too coarse").

use std::collections::BTreeMap;
use std::os::unix::fs::MetadataExt as _;
use std::os::unix::fs::PermissionsExt as _;
use std::path::Path;
use std::path::PathBuf;
use std::sync::Arc;

use jj_lib::backend::CopyId;
use jj_lib::backend::TreeValue;
use jj_lib::conflicts::ConflictMarkerStyle;
use jj_lib::conflicts::ConflictMaterializeOptions;
use jj_lib::conflicts::MaterializedTreeValue;
use jj_lib::conflicts::choose_materialized_conflict_marker_len;
use jj_lib::conflicts::materialize_merge_result_to_bytes;
use jj_lib::conflicts::materialize_tree_value;
use jj_lib::local_working_copy::EolConversionMode;
use jj_lib::fsmonitor::FsmonitorSettings;
use jj_lib::gitignore::GitIgnoreFile;
use jj_lib::local_working_copy::ExecChangeSetting;
use jj_lib::local_working_copy::TreeState;
use jj_lib::local_working_copy::TreeStateSettings;
use jj_lib::matchers::EverythingMatcher;
use jj_lib::matchers::NothingMatcher;
use jj_lib::merge::Merge;
use jj_lib::backend::MergedTreeValue;
use jj_lib::merged_tree::MergedTree;
use jj_lib::merged_tree_builder::MergedTreeBuilder;
use jj_lib::repo_path::RepoPath;
use jj_lib::repo_path::RepoPathBuf;
use jj_lib::signing::Signer;
use jj_lib::simple_backend::SimpleBackend;
use jj_lib::store::Store;
use jj_lib::tree_merge::MergeOptions;
use jj_lib::working_copy::SnapshotOptions;
use pollster::FutureExt as _;

use crate::core::chooser::Chooser;
use crate::core::clock;
use crate::core::runner::Budget;
use crate::core::runner::Engine;
use crate::core::runner::RunOutcome;
use crate::core::runner::Tier;

pub struct WcSim;

#[derive(Clone, Debug, PartialEq, Eq)]
enum DiskEntry {
    File { bytes: Vec<u8>, exec: bool },
    Symlink(String),
}

type Disk = BTreeMap<String, DiskEntry>;

#[derive(Clone, Debug, PartialEq, Eq)]
enum TreeEntry {
    File { bytes: Vec<u8>, exec: bool },
    Symlink(String),
    Conflict(MergedTreeValue),
}

type TreeMap = BTreeMap<String, TreeEntry>;

fn read_disk(ws: &Path) -> Disk {
    fn walk(base: &Path, dir: &Path, out: &mut Disk) {
        let Ok(rd) = std::fs::read_dir(dir) else { return };
        let mut entries: Vec<_> = rd.flatten().collect();
        entries.sort_by_key(std::fs::DirEntry::file_name);
        for e in entries {
            let p = e.path();
            let Ok(md) = std::fs::symlink_metadata(&p) else { continue };
            let rel = p.strip_prefix(base).unwrap().to_string_lossy().into_owned();
            if rel == ".jj" {
                continue;
            }
            if md.file_type().is_symlink() {
                let t = std::fs::read_link(&p).map(|t| t.to_string_lossy().into_owned()).unwrap_or_default();
                out.insert(rel, DiskEntry::Symlink(t));
            } else if md.is_dir() {
                walk(base, &p, out);
            } else if md.is_file() {
                out.insert(
                    rel,
                    DiskEntry::File {
                        bytes: std::fs::read(&p).unwrap_or_default(),
                        exec: md.permissions().mode() & 0o111 != 0,
                    },
                );
            }
        }
    }
    let mut out = Disk::new();
    walk(ws, ws, &mut out);
    out
}

/// Removes fifos the simulated user left in the workspace (the harness must
/// never open one, and the disk model does not list them).
fn remove_special_files(ws: &Path) -> Vec<String> {
    fn walk(base: &Path, dir: &Path, out: &mut Vec<String>) {
        let Ok(rd) = std::fs::read_dir(dir) else { return };
        for e in rd.flatten() {
            let p = e.path();
            let Ok(md) = std::fs::symlink_metadata(&p) else { continue };
            if p.file_name().is_some_and(|n| n == ".jj") {
                continue;
            }
            if md.is_dir() {
                walk(base, &p, out);
            } else if !md.is_file() && !md.file_type().is_symlink() {
                let _ = std::fs::remove_file(&p);
                out.push(p.strip_prefix(base).unwrap().to_string_lossy().into_owned());
            }
        }
    }
    let mut out = vec![];
    walk(ws, ws, &mut out);
    out
}

fn list_dirs(ws: &Path) -> std::collections::BTreeSet<String> {
    fn walk(base: &Path, dir: &Path, out: &mut std::collections::BTreeSet<String>) {
        let Ok(rd) = std::fs::read_dir(dir) else { return };
        for e in rd.flatten() {
            let p = e.path();
            if let Ok(md) = std::fs::symlink_metadata(&p)
                && md.is_dir()
            {
                let rel = p.strip_prefix(base).unwrap().to_string_lossy().into_owned();
                if rel == ".jj" {
                    continue;
                }
                out.insert(rel);
                walk(base, &p, out);
            }
        }
    }
    let mut out = std::collections::BTreeSet::new();
    walk(ws, ws, &mut out);
    out
}

fn read_file_bytes(store: &Arc<Store>, path: &RepoPath, id: &jj_lib::backend::FileId) -> Vec<u8> {
    use futures::AsyncReadExt as _;
    let mut r = store.read_file(path, id).block_on().unwrap();
    let mut buf = vec![];
    r.read_to_end(&mut buf).block_on().unwrap();
    buf
}

fn read_tree(store: &Arc<Store>, tree: &MergedTree) -> TreeMap {
    let mut out = TreeMap::new();
    for (path, value) in tree.entries() {
        let value = value.unwrap();
        let key = path.as_internal_file_string().to_string();
        match value.as_resolved() {
            Some(Some(TreeValue::File { id, executable, .. })) => {
                out.insert(
                    key,
                    TreeEntry::File {
                        bytes: read_file_bytes(store, &path, id),
                        exec: *executable,
                    },
                );
            }
            Some(Some(TreeValue::Symlink(id))) => {
                let t = store.read_symlink(&path, id).block_on().unwrap();
                out.insert(key, TreeEntry::Symlink(t));
            }
            Some(None) => {}
            _ => {
                out.insert(key, TreeEntry::Conflict(value));
            }
        }
    }
    out
}

// --- EOL model (mirrors lib/src/eol.rs, including the 8 KiB binary probe) ---

const PROBE_LIMIT: usize = 8 << 10;

/// Classification as jj documents it: only the first 8 KiB are looked at, and a
/// CR in the last byte of the window is not counted (it may be half of a CRLF).
fn is_binary(b: &[u8]) -> bool {
    let b = if b.len() >= PROBE_LIMIT {
        if b[PROBE_LIMIT - 1] == b'\r' { &b[..PROBE_LIMIT - 1] } else { &b[..PROBE_LIMIT] }
    } else {
        b
    };
    let mut i = 0;
    while i < b.len() {
        match b[i] {
            0 => return true,
            b'\r' if b.get(i + 1) != Some(&b'\n') => return true,
            _ => {}
        }
        i += 1;
    }
    false
}

fn to_lf(b: &[u8]) -> Vec<u8> {
    let mut out = Vec::with_capacity(b.len());
    let mut i = 0;
    while i < b.len() {
        if b[i] == b'\r' && b.get(i + 1) == Some(&b'\n') {
            out.push(b'\n');
            i += 2;
        } else {
            out.push(b[i]);
            i += 1;
        }
    }
    out
}

fn to_crlf(b: &[u8]) -> Vec<u8> {
    let lf = to_lf(b);
    let mut out = Vec::with_capacity(lf.len() + 8);
    for c in lf {
        if c == b'\n' {
            out.extend_from_slice(b"\r\n");
        } else {
            out.push(c);
        }
    }
    out
}

fn snapshot_convert(mode: EolConversionMode, b: &[u8]) -> Vec<u8> {
    match mode {
        EolConversionMode::None => b.to_vec(),
        _ if is_binary(b) => b.to_vec(),
        _ => to_lf(b),
    }
}

fn update_convert(mode: EolConversionMode, b: &[u8]) -> Vec<u8> {
    match mode {
        EolConversionMode::InputOutput if !is_binary(b) => to_crlf(b),
        _ => b.to_vec(),
    }
}

// --- the simulated clock ---

struct Ticks;

impl Ticks {
    fn install(now: i64) {
        *clock::GLOBAL_CLOCK.lock().unwrap() = Some(clock::SimClock {
            now,
            ..clock::SimClock::default()
        });
    }
    fn uninstall() {
        *clock::GLOBAL_CLOCK.lock().unwrap() = None;
    }
    fn now() -> i64 {
        clock::GLOBAL_CLOCK.lock().unwrap().as_ref().unwrap().now
    }
    /// Stamps every inode whose real (mtime, ctime, size) changed with the
    /// current tick.
    fn scan(dirs: &[&Path]) {
        fn walk(dir: &Path, c: &mut clock::SimClock) {
            let Ok(rd) = std::fs::read_dir(dir) else { return };
            for e in rd.flatten() {
                let p = e.path();
                if let Ok(md) = std::fs::symlink_metadata(&p) {
                    c.stamp(&md);
                    if md.is_dir() {
                        walk(&p, c);
                    }
                }
            }
        }
        let mut g = clock::GLOBAL_CLOCK.lock().unwrap();
        let c = g.as_mut().unwrap();
        for d in dirs {
            walk(d, c);
        }
    }
    fn restamp(path: &Path) {
        if let Ok(md) = std::fs::symlink_metadata(path) {
            clock::GLOBAL_CLOCK.lock().unwrap().as_mut().unwrap().restamp(&md);
        }
    }
    fn restamp_at(path: &Path, tick: i64) {
        if let Ok(md) = std::fs::symlink_metadata(path) {
            clock::GLOBAL_CLOCK.lock().unwrap().as_mut().unwrap().restamp_at(&md, tick);
        }
    }
    fn advance(dirs: &[&Path]) {
        Self::scan(dirs);
        clock::GLOBAL_CLOCK.lock().unwrap().as_mut().unwrap().now += 1000;
    }
    fn tick_of(path: &Path) -> Option<i64> {
        let md = std::fs::symlink_metadata(path).ok()?;
        let g = clock::GLOBAL_CLOCK.lock().unwrap();
        g.as_ref()?.stamps.get(&(md.dev(), md.ino())).map(|s| s.3)
    }
}

// --- workload pieces ---

// "a2" and "d2/h" are siblings whose names merely start with another path's
// name ("a", "d"): prefix handling must be per path component, not per byte
const FILES: &[&str] = &["a", "a2", "b", "d/c", "d/e/f", "d2/h", "x", "ign", "igd/g"];
const GITIGNORE: &str = "/ign\n/igd/\n";

/// Root ignore file variants and nested (`d/.gitignore`) variants the
/// simulated user may write. Only anchored literal names, with or without a
/// trailing slash, so that the model needs none of Git's pattern language.
const ROOT_IGNORES: &[&str] = &[GITIGNORE, "/igd/\n", "/ign\n/igd/\n/x\n"];
const NESTED_IGNORES: &[&str] = &["/c\n", "/e/\n", "/c\n/e/\n", ""];

/// The ignore rules in force, read from the ignore files that are on disk
/// right now (jj reads them from disk while it walks the workspace).
struct IgnoreModel {
    /// (full path of the ignored name, directories only)
    rules: Vec<(String, bool)>,
}

impl IgnoreModel {
    fn from_disk(ws: &Path) -> Self {
        let mut rules = vec![];
        for (file, base) in [(".gitignore", ""), ("d/.gitignore", "d/")] {
            let p = ws.join(file);
            if !std::fs::symlink_metadata(&p).is_ok_and(|m| m.is_file()) {
                continue;
            }
            let Ok(text) = std::fs::read_to_string(&p) else { continue };
            for line in text.lines() {
                let line = line.trim_end_matches('\r');
                let Some(name) = line.strip_prefix('/') else { continue };
                if name.is_empty() {
                    continue;
                }
                match name.strip_suffix('/') {
                    Some(dir) => rules.push((format!("{base}{dir}"), true)),
                    None => rules.push((format!("{base}{name}"), false)),
                }
            }
        }
        Self { rules }
    }

    fn ignored(&self, path: &str) -> bool {
        self.rules
            .iter()
            .any(|(full, dir_only)| path.starts_with(&format!("{full}/")) || (!dir_only && path == full))
    }
}

fn content_for(ch: &mut Chooser, tag: &str) -> Vec<u8> {
    // fixed width so that "same size" edits are common
    let n = ch.choose(90) + 10;
    match ch.weighted(&[10, 4, 2, 2, 1]) {
        4 => {
            // content around the 8 KiB probe boundary: `pad` bytes of 16-byte
            // lines, filler up to a drawn offset, then a special sequence
            let crlf = ch.chance(1, 2);
            let line: &[u8] = if crlf { b"0123456789abcd\r\n" } else { b"0123456789abcde\n" };
            let mut out = Vec::with_capacity(PROBE_LIMIT + 64);
            for _ in 0..510 {
                out.extend_from_slice(line);
            }
            let at = PROBE_LIMIT - 4 + ch.choose(8); // 8188..8195
            while out.len() < at {
                out.push(b'p');
            }
            match ch.choose(5) {
                0 => out.extend_from_slice(b"\r\n"),
                1 => out.extend_from_slice(b"\rx"),
                2 => out.extend_from_slice(b"\0"),
                3 => out.extend_from_slice(b"\n"),
                _ => out.extend_from_slice(b"\r"),
            }
            if ch.chance(2, 3) {
                out.extend_from_slice(format!("tail {tag} {n:02}\n").as_bytes());
            }
            out
        }
        0 => format!("l1 {tag}\nl2 {n:02}\nl3\n").into_bytes(),
        1 => format!("l1 {tag}\r\nl2 {n:02}\r\nl3\r\n").into_bytes(),
        2 => format!("bin {tag}\0{n:02}\rx").into_bytes(),
        _ => format!("l1 {tag}\nno-eol {n:02}").into_bytes(),
    }
}

struct Env {
    store: Arc<Store>,
    ws: PathBuf,
    state: PathBuf,
    settings: TreeStateSettings,
    eol: EolConversionMode,
    style: ConflictMarkerStyle,
}

fn rp(p: &str) -> RepoPathBuf {
    RepoPathBuf::from_internal_string(p).unwrap()
}

fn file_value(store: &Arc<Store>, path: &str, bytes: &[u8], exec: bool) -> TreeValue {
    let id = store.write_file(&rp(path), &mut &bytes[..]).block_on().unwrap();
    TreeValue::File {
        id,
        executable: exec,
        copy_id: CopyId::placeholder(),
    }
}

/// Generates a tree over the path universe: files, executables, symlinks,
/// 3- and 5-term file conflicts (redundant pairs, absent sides, exec
/// differences).
fn gen_tree(env: &Env, ch: &mut Chooser, tag: &str, allow_conflicts: bool) -> MergedTree {
    let store = &env.store;
    let mut b = MergedTreeBuilder::new(store.empty_merged_tree());
    b.set_or_remove(rp(".gitignore"), Merge::normal(file_value(store, ".gitignore", GITIGNORE.as_bytes(), false)));
    for (i, p) in ["a", "a2", "b", "d/c", "d/e/f", "d2/h", "x"].iter().enumerate() {
        // "d" may be a file instead of a directory
        match ch.weighted(&[5, 3, 1, if allow_conflicts { 3 } else { 0 }]) {
            0 => {
                let bytes = content_for(ch, &format!("{tag}{i}"));
                // stored content is LF-normalised when conversion is on, as a
                // snapshot would have stored it
                let bytes = snapshot_convert(env.eol, &bytes);
                let exec = ch.chance(1, 5);
                b.set_or_remove(rp(p), Merge::normal(file_value(store, p, &bytes, exec)));
            }
            1 => {}
            2 => {
                let id = store.write_symlink(&rp(p), &format!("target-{tag}{i}")).block_on().unwrap();
                b.set_or_remove(rp(p), Merge::normal(TreeValue::Symlink(id)));
            }
            _ => {
                // the conflicting line is sometimes a run of marker characters:
                // shorter than a marker ("------" becomes a 7-character line once
                // a diff-style hunk prefixes it), exactly marker-sized, or longer
                let markerish = ["------", "++++++", "-------", "+++++++", "<<<<<<<", ">>>>>>> x", "=======", "%%%%%%%%% y", "\\\\\\\\"];
                let (mut l2b, mut l2l, mut l2r) = (format!("l2 base {tag}"), format!("l2 left {tag}"), format!("l2 right {tag}"));
                if ch.chance(1, 3) {
                    let m = markerish[ch.choose(markerish.len())].to_string();
                    match ch.choose(3) {
                        0 => l2b = m,
                        1 => l2l = m,
                        _ => l2r = m,
                    }
                }
                let base = format!("l1\n{l2b}\nl3\nl4\n");
                let s1 = format!("l1\n{l2l}\nl3\nl4\n");
                let s2 = format!("l1\n{l2r}\nl3\nl4\n");
                let fv = |c: &str, e: bool| Some(file_value(store, p, c.as_bytes(), e));
                let exec1 = ch.chance(1, 6);
                let m: MergedTreeValue = match ch.weighted(&[4, 2, 2, 1]) {
                    0 => Merge::from_vec(vec![fv(&s1, exec1), fv(&base, false), fv(&s2, false)]),
                    // redundant pair: second add equals first remove
                    1 => {
                        let s3 = format!("l1\nl2 third {tag}\nl3\nl4\n");
                        Merge::from_vec(vec![fv(&s1, exec1), fv(&base, false), fv(&base, false), fv(&base, false), fv(&s3, false)])
                    }
                    // 5 terms, two independent hunks
                    2 => {
                        let base2 = format!("l1\nl2 base {tag}\nl3\nl4 base2\n");
                        let s3 = format!("l1\nl2 base {tag}\nl3\nl4 other\n");
                        Merge::from_vec(vec![fv(&s1, false), fv(&base, false), fv(&s2, false), fv(&base2, false), fv(&s3, false)])
                    }
                    // absent side (deleted on one side)
                    _ => Merge::from_vec(vec![fv(&s1, false), fv(&base, false), None]),
                };
                b.set_or_remove(rp(p), m);
            }
        }
    }
    // a tracked file below an ignored directory (committed before the rule
    // existed, or added with an explicit track)
    if ch.chance(1, 4) {
        let bytes = snapshot_convert(env.eol, &content_for(ch, &format!("{tag}g")));
        b.set_or_remove(rp("igd/g"), Merge::normal(file_value(store, "igd/g", &bytes, false)));
    }
    // occasionally "d" is a file, which removes d/c and d/e/f
    if ch.chance(1, 8) {
        b.set_or_remove(rp("d/c"), Merge::absent());
        b.set_or_remove(rp("d/e/f"), Merge::absent());
        b.set_or_remove(rp("d"), Merge::normal(file_value(store, "d", format!("file d {tag}\n").as_bytes(), false)));
    }
    b.write_tree().block_on().unwrap()
}

/// What checkout is expected to put on disk for a tree value.
fn expected_disk_entry(env: &Env, tree: &MergedTree, path: &str) -> Option<DiskEntry> {
    let value = tree.path_value(&rp(path)).block_on().unwrap();
    if value.is_absent() {
        return None;
    }
    let m = materialize_tree_value(&env.store, &rp(path), value, tree.labels()).block_on().unwrap();
    match m {
        MaterializedTreeValue::Absent => None,
        MaterializedTreeValue::File(mut f) => {
            use futures::AsyncReadExt as _;
            let mut buf = vec![];
            f.reader.read_to_end(&mut buf).block_on().unwrap();
            Some(DiskEntry::File {
                bytes: update_convert(env.eol, &buf),
                exec: f.executable,
            })
        }
        MaterializedTreeValue::Symlink { target, .. } => Some(DiskEntry::Symlink(target)),
        MaterializedTreeValue::FileConflict(file) => {
            let len = choose_materialized_conflict_marker_len(&file.contents);
            let options = ConflictMaterializeOptions {
                marker_style: env.style,
                marker_len: Some(len),
                merge: env.store.merge_options().clone(),
            };
            let bytes = materialize_merge_result_to_bytes(&file.contents, &file.labels, &options);
            Some(DiskEntry::File {
                bytes: update_convert(env.eol, &bytes),
                exec: file.executable.unwrap_or(false),
            })
        }
        _ => None,
    }
}

fn in_sparse(patterns: &[RepoPathBuf], path: &str) -> bool {
    let p = rp(path);
    patterns.iter().any(|pat| p.starts_with(pat))
}

struct Run<'a> {
    env: Env,
    ch: &'a mut Chooser,
    out: &'a mut RunOutcome,
    log: Vec<String>,
    seq: u64,
    /// conflict files exactly as checkout wrote them (path -> bytes)
    materialized: BTreeMap<String, Vec<u8>>,
    /// conflict files whose resolved region the user edited:
    /// path -> (bytes on disk, conflict before the edit, expected conflict)
    edited_conflicts: BTreeMap<String, (Vec<u8>, MergedTreeValue, MergedTreeValue)>,
    stopped: bool,
    shared_log: &'a std::sync::Mutex<Vec<String>>,
}

impl Run<'_> {
    fn note(&mut self, s: String) {
        self.seq += 1;
        let line = format!("{:04} t={} {s}", self.seq, Ticks::now());
        self.shared_log.lock().unwrap().push(line.clone());
        self.log.push(line);
    }

    fn violate(&mut self, prop: &str, inv: &str, msg: String) {
        self.note(format!("VIOLATION {prop} {inv}: {msg}"));
        self.out.violate(prop, inv, format!("wcsim:{inv}"), msg, self.seq);
        self.stopped = true;
    }

    fn dirs(&self) -> (PathBuf, PathBuf) {
        (self.env.ws.clone(), self.env.state.clone())
    }

    fn scan(&self) {
        let (a, b) = self.dirs();
        Ticks::scan(&[&a, &b]);
    }

    fn maybe_advance(&mut self) {
        if self.ch.chance(2, 5) {
            let (a, b) = self.dirs();
            Ticks::advance(&[&a, &b]);
            self.out.sim_ticks += 1;
        }
    }

    fn load(&mut self) -> TreeState {
        TreeState::load(self.env.store.clone(), self.env.ws.clone(), self.env.state.clone(), &self.env.settings).unwrap()
    }

    // ---- user edits ----
    fn user_edit(&mut self, ts: &TreeState) {
        let path = FILES[self.ch.choose(FILES.len())];
        let disk_path = self.env.ws.join(path);
        if std::fs::symlink_metadata(&disk_path).is_ok_and(|m| !m.is_file() && !m.is_dir() && !m.file_type().is_symlink()) {
            // a fifo from an earlier step: the user removes it before doing anything else there
            let _ = std::fs::remove_file(&disk_path);
            self.note(format!("user removes fifo {path}"));
        }
        let kind = self.ch.weighted(&[12, 4, 2, 2, 2, 2, 3, 2]);
        if kind == 6 {
            self.edit_ignore_file(ts);
            return;
        }
        // The simulated user leaves everything outside the sparse patterns
        // alone (files there would be untracked obstacles for later pattern
        // changes, which is a different scenario).
        let patterns = ts.sparse_patterns().clone();
        let all = patterns == vec![RepoPathBuf::root()];
        if !in_sparse(&patterns, path) || (kind == 4 && !all) {
            return;
        }
        {
            let mut parent = disk_path.parent();
            while let Some(p) = parent {
                if p == self.env.ws {
                    break;
                }
                if let Ok(md) = std::fs::symlink_metadata(p)
                    && !md.is_dir()
                    && !in_sparse(&patterns, &p.strip_prefix(&self.env.ws).unwrap().to_string_lossy())
                {
                    return;
                }
                parent = p.parent();
            }
            // replacing a directory by a file/symlink would delete what is below it
            if disk_path.is_dir() && !all {
                return;
            }
            // nor does the user build a directory where a tracked file outside
            // the patterns lives (or the reverse)
            if !all {
                for (tp, _) in ts.current_tree().entries() {
                    let tp = tp.as_internal_file_string().to_string();
                    if !in_sparse(&patterns, &tp) && (path.starts_with(&format!("{tp}/")) || tp.starts_with(&format!("{path}/"))) {
                        return;
                    }
                }
            }
        }
        // never edit conflict files here (C06 handles them separately)
        let is_conflict = ts
            .current_tree()
            .path_value(&rp(path))
            .block_on()
            .map(|v| !v.is_resolved())
            .unwrap_or(false);
        if is_conflict {
            if kind == 0 && self.ch.chance(1, 2) {
                // "touch": new tick, same bytes
                Ticks::restamp(&disk_path);
                self.note(format!("user touch {path} (conflict file)"));
                self.out.probe("touch_conflict_file", 1);
            } else if kind == 0 {
                self.edit_resolved_region_of_conflict(ts, path);
            }
            return;
        }
        // a parent that is a file or symlink blocks the path: replace it
        let mut parent = disk_path.parent();
        while let Some(p) = parent {
            if p == self.env.ws {
                break;
            }
            if let Ok(md) = std::fs::symlink_metadata(p)
                && !md.is_dir()
            {
                let _ = std::fs::remove_file(p);
            }
            parent = p.parent();
        }
        match kind {
            0 => {
                // write; frequently same size as the existing file
                let existing = std::fs::read(&disk_path).ok();
                let mut bytes = content_for(self.ch, &format!("u{}", self.seq % 7));
                let mut same = false;
                if let Some(old) = &existing
                    && self.ch.chance(2, 3)
                    && std::fs::symlink_metadata(&disk_path).is_ok_and(|m| m.is_file())
                {
                    // same size, different content
                    bytes = old.clone();
                    if let Some(pos) = bytes.iter().position(|b| b.is_ascii_digit()) {
                        bytes[pos] = if bytes[pos] == b'9' { b'0' } else { bytes[pos] + 1 };
                        same = true;
                    } else if !bytes.is_empty() {
                        let l = bytes.len() - 1;
                        bytes[l] = if bytes[l] == b'z' { b'y' } else { b'z' };
                        same = true;
                    }
                }
                if disk_path.is_dir() {
                    let _ = std::fs::remove_dir_all(&disk_path);
                }
                if std::fs::symlink_metadata(&disk_path).is_ok_and(|m| m.file_type().is_symlink()) {
                    let _ = std::fs::remove_file(&disk_path);
                }
                let _ = std::fs::create_dir_all(disk_path.parent().unwrap());
                // in-place rewrite keeps the inode, as an editor saving a file would
                let old_tick = Ticks::tick_of(&disk_path);
                let state_tick = Ticks::tick_of(&self.env.state.join("tree_state"));
                std::fs::write(&disk_path, &bytes).unwrap();
                Ticks::restamp(&disk_path);
                // Clock faults: a future-dated write (clock of the writer ahead, or
                // an explicit `touch -d`), and a same-size rewrite that keeps the
                // file's previous modification time (`touch -r`, `rsync -t`). The
                // latter is generated only when that time is not older than the
                // state file's, because otherwise no timestamp scheme can see it.
                let mut clock_note = "";
                if same
                    && let (Some(ot), Some(st)) = (old_tick, state_tick)
                    && ot >= st
                    && self.ch.chance(1, 5)
                {
                    Ticks::restamp_at(&disk_path, ot);
                    self.out.probe("same_size_edit_preserving_mtime", 1);
                    clock_note = " (mtime preserved)";
                } else if self.ch.chance(1, 8) {
                    let ahead = 1000 * (1 + self.ch.choose(2) as i64);
                    Ticks::restamp_at(&disk_path, Ticks::now() + ahead);
                    self.out.probe("future_dated_write", 1);
                    clock_note = " (future-dated)";
                }
                let file_tick = Ticks::tick_of(&disk_path);
                if same {
                    self.out.probe("same_size_edit", 1);
                    if file_tick == state_tick {
                        self.out.probe("same_size_edit_in_state_file_tick", 1);
                    }
                }
                self.note(format!("user write {path} {} bytes{}{clock_note}", bytes.len(), if same { " (same size)" } else { "" }));
            }
            1 => {
                if disk_path.is_dir() {
                    let _ = std::fs::remove_dir_all(&disk_path);
                } else {
                    let _ = std::fs::remove_file(&disk_path);
                }
                self.note(format!("user delete {path}"));
            }
            2 => {
                if let Ok(md) = std::fs::metadata(&disk_path)
                    && md.is_file()
                    && !std::fs::symlink_metadata(&disk_path).unwrap().file_type().is_symlink()
                {
                    let mode = md.permissions().mode();
                    let new = if mode & 0o100 != 0 { 0o644 } else { 0o755 };
                    std::fs::set_permissions(&disk_path, std::fs::Permissions::from_mode(new)).unwrap();
                    Ticks::restamp(&disk_path);
                    self.note(format!("user chmod {path} {new:o}"));
                }
            }
            3 => {
                if disk_path.is_dir() {
                    let _ = std::fs::remove_dir_all(&disk_path);
                } else {
                    let _ = std::fs::remove_file(&disk_path);
                }
                let _ = std::fs::create_dir_all(disk_path.parent().unwrap());
                let target = format!("t{}", self.ch.choose(3));
                std::os::unix::fs::symlink(&target, &disk_path).unwrap();
                Ticks::restamp(&disk_path);
                self.note(format!("user symlink {path} -> {target}"));
            }
            4 => {
                // file <-> directory swap at "d"
                let d = self.env.ws.join("d");
                if d.is_dir() {
                    let _ = std::fs::remove_dir_all(&d);
                    std::fs::write(&d, b"now a file\n").unwrap();
                    Ticks::restamp(&d);
                    self.note("user swap: directory d -> file d".to_string());
                } else {
                    let _ = std::fs::remove_file(&d);
                    std::fs::create_dir_all(d.join("e")).unwrap();
                    std::fs::write(d.join("c"), b"back in a dir\n").unwrap();
                    Ticks::restamp(&d.join("c"));
                    self.note("user swap: file d -> directory d with d/c".to_string());
                }
                self.out.probe("file_dir_swap", 1);
            }
            7 => {
                // the file (or symlink) at this very path becomes a directory with
                // a file in it, or a fifo - also inside ignored directories, where
                // jj only re-checks the files it already tracks
                if std::fs::symlink_metadata(&disk_path).is_ok_and(|m| !m.is_dir()) {
                    let _ = std::fs::remove_file(&disk_path);
                    if self.ch.chance(1, 4) {
                        let c = std::ffi::CString::new(disk_path.as_os_str().as_encoded_bytes()).unwrap();
                        // SAFETY: plain libc call with a valid NUL-terminated path
                        let rc = unsafe { libc::mkfifo(c.as_ptr(), 0o644) };
                        if rc == 0 {
                            Ticks::restamp(&disk_path);
                            self.note(format!("user replaces {path} by a fifo"));
                            self.out.probe("file_replaced_by_fifo", 1);
                        }
                    } else {
                        std::fs::create_dir_all(&disk_path).unwrap();
                        std::fs::write(disk_path.join("z"), format!("inside former file {path}\n")).unwrap();
                        Ticks::restamp(&disk_path.join("z"));
                        self.note(format!("user replaces file {path} by a directory containing {path}/z"));
                        self.out.probe("file_replaced_by_directory", 1);
                    }
                }
            }
            _ => {
                if std::fs::symlink_metadata(&disk_path).is_ok() {
                    Ticks::restamp(&disk_path);
                    self.note(format!("user touch {path}"));
                }
            }
        }
    }


    /// C06, second clause: the user edits the first line of a materialised
    /// conflict file, which lies outside every conflict hunk. The expected
    /// value is computed with jj's pure Merge helpers: the edit lands on every
    /// term of the simplified conflict and is written back to the surviving
    /// positions of the original one.
    fn edit_resolved_region_of_conflict(&mut self, ts: &TreeState, path: &str) {
        let disk_path = self.env.ws.join(path);
        let Ok(bytes) = std::fs::read(&disk_path) else { return };
        if self.materialized.get(path) != Some(&bytes) || !bytes.starts_with(b"l1") {
            return;
        }
        let Ok(value) = ts.current_tree().path_value(&rp(path)).block_on() else { return };
        let Some(file_ids) = value.to_file_merge() else { return };
        if file_ids.iter().any(Option::is_none) {
            return;
        }
        let same_size = self.ch.chance(1, 2);
        let new_first: &[u8] = if same_size { b"Z1" } else { b"first line edited" };
        // every stored side starts with "l1\n" (gen_tree)
        let simplified = file_ids.simplify();
        let mut new_simplified = vec![];
        for id in simplified.iter() {
            let id = id.as_ref().unwrap();
            let old = read_file_bytes(&self.env.store, &rp(path), id);
            if !old.starts_with(b"l1\n") {
                return;
            }
            let mut new = new_first.to_vec();
            new.extend_from_slice(&old[2..]);
            let new_id = self.env.store.write_file(&rp(path), &mut &new[..]).block_on().unwrap();
            new_simplified.push(Some(new_id));
        }
        let new_simplified = Merge::from_vec(new_simplified);
        let new_ids = if new_simplified.iter().len() != file_ids.iter().len() {
            file_ids.clone().update_from_simplified(new_simplified)
        } else {
            new_simplified
        };
        let expected = value.with_new_file_ids(&new_ids);
        let mut edited = new_first.to_vec();
        edited.extend_from_slice(&bytes[2..]);
        std::fs::write(&disk_path, &edited).unwrap();
        Ticks::restamp(&disk_path);
        self.note(format!(
            "user edits the first (non-conflicting) line of conflict file {path}{}",
            if same_size { " (same size)" } else { "" }
        ));
        self.out.probe("c06_resolved_region_edit", 1);
        self.edited_conflicts.insert(path.to_string(), (edited, value, expected));
    }

    /// Writes one of the ignore-file variants (root or `d/.gitignore`), or
    /// removes the nested one.
    fn edit_ignore_file(&mut self, ts: &TreeState) {
        let patterns = ts.sparse_patterns().clone();
        let nested = self.ch.chance(1, 2);
        let rel = if nested { "d/.gitignore" } else { ".gitignore" };
        if !in_sparse(&patterns, rel) {
            return;
        }
        let disk_path = self.env.ws.join(rel);
        if nested && !self.env.ws.join("d").is_dir() {
            return;
        }
        if std::fs::symlink_metadata(&disk_path).is_ok_and(|m| !m.is_file()) {
            return;
        }
        if nested && self.ch.chance(1, 4) {
            if std::fs::remove_file(&disk_path).is_ok() {
                self.note("user deletes d/.gitignore".to_string());
            }
            return;
        }
        let text = if nested {
            NESTED_IGNORES[self.ch.choose(NESTED_IGNORES.len())]
        } else {
            ROOT_IGNORES[self.ch.choose(ROOT_IGNORES.len())]
        };
        std::fs::write(&disk_path, text).unwrap();
        Ticks::restamp(&disk_path);
        self.note(format!("user writes {rel} = {text:?}"));
        self.out.probe(if nested { "nested_ignore_file_written" } else { "root_ignore_file_written" }, 1);
    }

    // ---- snapshot + oracle (C23, C26, C27, C29, C06) ----
    fn snapshot(&mut self, ts: &mut TreeState, ctx: &str) -> bool {
        self.scan();
        let disk = read_disk(&self.env.ws);
        let ignores = IgnoreModel::from_disk(&self.env.ws);
        let ignored = |p: &str| ignores.ignored(p);
        let prev = read_tree(&self.env.store, ts.current_tree());
        let patterns = ts.sparse_patterns().clone();
        let prev_sides = ts.current_tree().tree_ids().num_sides();
        let options = SnapshotOptions {
            base_ignores: GitIgnoreFile::empty(),
            progress: None,
            start_tracking_matcher: &EverythingMatcher,
            force_tracking_matcher: &NothingMatcher,
            max_new_file_size: u64::MAX,
        };
        let res = ts.snapshot(&options).block_on();
        if let Err(e) = res {
            self.violate("C23", "snapshot_failed", format!("{ctx}: snapshot failed: {e}"));
            return false;
        }
        ts.save().unwrap();
        self.scan();
        self.note(format!("jj snapshot ({ctx})"));
        let now = read_tree(&self.env.store, ts.current_tree());
        let mut paths: Vec<String> = disk.keys().chain(prev.keys()).chain(now.keys()).cloned().collect();
        paths.sort();
        paths.dedup();
        for p in paths {
            let got = now.get(&p);
            if !in_sparse(&patterns, &p) {
                if got != prev.get(&p) {
                    self.violate(
                        "C27",
                        "snapshot_touched_path_outside_sparse_patterns",
                        format!("{ctx}: path {p} is outside the sparse patterns but its tree value changed from {:?} to {:?}", prev.get(&p).map(short_entry), got.map(short_entry)),
                    );
                    return false;
                }
                continue;
            }
            // a directory on disk at p: the tree must not have a file there
            let expect: Option<TreeEntry> = match disk.get(&p) {
                None => None,
                Some(DiskEntry::Symlink(t)) => {
                    if ignored(&p) && !prev.contains_key(&p) {
                        None
                    } else {
                        Some(TreeEntry::Symlink(t.clone()))
                    }
                }
                Some(DiskEntry::File { bytes, exec }) => {
                    if ignored(&p) && !prev.contains_key(&p) {
                        None
                    } else if let Some(TreeEntry::Conflict(c)) = prev.get(&p) {
                        if self.materialized.get(&p) == Some(bytes) {
                            // unedited conflict file: identical conflict (C06)
                            self.out.probe("c06_unedited_conflict_snapshotted", 1);
                            Some(TreeEntry::Conflict(c.clone()))
                        } else if let Some((edited, before, after)) = self.edited_conflicts.get(&p)
                            && edited == bytes
                            && (c == before || c == after)
                        {
                            // edit confined to a resolved region (C06)
                            self.out.probe("c06_resolved_region_edit_snapshotted", 1);
                            Some(TreeEntry::Conflict(after.clone()))
                        } else {
                            // edited conflict file: not judged here
                            continue;
                        }
                    } else {
                        Some(TreeEntry::File {
                            bytes: snapshot_convert(self.env.eol, bytes),
                            exec: *exec,
                        })
                    }
                }
            };
            // The merge of whole trees is simplified when a change elsewhere
            // makes two sides equal; a conflict then legitimately shows up
            // with fewer, but equivalent, terms.
            if let (Some(TreeEntry::Conflict(a)), Some(TreeEntry::Conflict(b))) = (got, expect.as_ref())
                && a != b
                && a.clone().simplify() == b.clone().simplify()
                && prev_sides != ts.current_tree().tree_ids().num_sides()
            {
                self.out.probe("conflict_arity_reduced_by_tree_level_simplification", 1);
                continue;
            }
            if got != expect.as_ref() {
                // which property does the mismatch belong to?
                let (prop, inv) = match (prev.get(&p), &expect) {
                    (Some(TreeEntry::Conflict(_)), Some(TreeEntry::Conflict(_))) if self.edited_conflicts.contains_key(&p) => ("C06", "edit_of_resolved_region_not_applied_to_every_side"),
                    (Some(TreeEntry::Conflict(_)), Some(TreeEntry::Conflict(_))) => ("C06", "unedited_conflict_changed_by_snapshot"),
                    (Some(TreeEntry::File { bytes: old, .. }), Some(TreeEntry::File { bytes: new, .. })) if old.len() == new.len() && got == prev.get(&p) => {
                        ("C26", "edit_after_save_not_detected")
                    }
                    _ if self.env.eol != EolConversionMode::None
                        && matches!((&expect, got), (Some(TreeEntry::File { bytes: a, .. }), Some(TreeEntry::File { bytes: b, .. })) if to_lf(a) == to_lf(b) && a != b) =>
                    {
                        ("C29", "eol_conversion_mismatch_on_snapshot")
                    }
                    _ => ("C23", "snapshot_differs_from_disk"),
                };
                self.violate(
                    prop,
                    inv,
                    format!(
                        "{ctx}: path {p}: disk has {:?}, previous tree {:?}, snapshot recorded {:?}, expected {:?} (file tick {:?}, state file tick {:?})",
                        disk.get(&p).map(short_disk),
                        prev.get(&p).map(short_entry),
                        got.map(short_entry),
                        expect.as_ref().map(short_entry),
                        Ticks::tick_of(&self.env.ws.join(&p)),
                        Ticks::tick_of(&self.env.state.join("tree_state")),
                    ),
                );
                return false;
            }
        }
        self.out.probe("snapshot_checked", 1);
        true
    }

    // ---- checkout + oracle (C24, C25, C29) ----
    fn checkout(&mut self, ts: &mut TreeState, with_obstacle: bool) -> bool {
        // a command always snapshots first
        if !self.snapshot(ts, "before checkout") {
            return false;
        }
        for p in remove_special_files(&self.env.ws) {
            self.note(format!("user removes fifo {p}"));
        }
        let tag = format!("T{}", self.seq % 97);
        let old_tree = ts.current_tree().clone();
        let new_tree = {
            let env = &self.env;
            gen_tree(env, self.ch, &tag, true)
        };
        let patterns = ts.sparse_patterns().clone();
        let old = read_tree(&self.env.store, &old_tree);
        let new = read_tree(&self.env.store, &new_tree);
        // obstacles: untracked / ignored files where the new tree adds a file,
        // or a symlink to an outside directory where it adds a directory
        let outside = self.env.ws.parent().unwrap().join("outside");
        let _ = std::fs::remove_dir_all(&outside);
        let _ = std::fs::create_dir_all(&outside);
        let mut obstacles: Vec<(String, DiskEntry)> = vec![];
        if with_obstacle {
            let all = patterns == vec![RepoPathBuf::root()];
            let d_path = self.env.ws.join("d");
            let d_on_disk = std::fs::symlink_metadata(&d_path).ok();
            let new_under_d: Vec<String> = new.keys().filter(|p| p.starts_with("d/")).cloned().collect();
            let old_under_d: Vec<String> = old.keys().filter(|p| p.starts_with("d/")).cloned().collect();
            let kind = self.ch.weighted(&[3, 2, 2]);
            if kind == 1 && all && d_on_disk.is_none() && !new_under_d.is_empty() {
                // (A) `d` is a symlink to a directory outside the workspace that
                // already has the sub-directories the new tree needs
                std::fs::create_dir_all(outside.join("e")).unwrap();
                std::os::unix::fs::symlink(&outside, &d_path).unwrap();
                Ticks::restamp(&d_path);
                obstacles.push(("d".to_string(), DiskEntry::Symlink(outside.to_string_lossy().into_owned())));
                self.note(format!("user symlink d -> {} (outside the workspace, containing e/) in the way of {:?}", outside.display(), new_under_d));
                self.out.probe("obstacle_symlinked_dir", 1);
            } else if kind == 2 && all && d_on_disk.as_ref().is_some_and(std::fs::Metadata::is_dir) && !old_under_d.is_empty() && old_under_d.iter().any(|p| new.get(p) != old.get(p)) {
                // (B) the tracked directory `d` is replaced by a symlink to an
                // outside directory with the same layout: the update must not
                // remove or rewrite the files out there
                for p in &old_under_d {
                    let rest = &p[2..];
                    let t = outside.join(rest);
                    std::fs::create_dir_all(t.parent().unwrap()).unwrap();
                    std::fs::write(&t, b"outside victim\n").unwrap();
                }
                std::fs::remove_dir_all(&d_path).unwrap();
                std::os::unix::fs::symlink(&outside, &d_path).unwrap();
                Ticks::restamp(&d_path);
                obstacles.push(("d".to_string(), DiskEntry::Symlink(outside.to_string_lossy().into_owned())));
                self.note(format!("user replaces tracked directory d by a symlink to {} holding {:?}", outside.display(), old_under_d));
                self.out.probe("obstacle_symlinked_dir", 1);
                self.out.probe("obstacle_symlink_replaces_tracked_dir", 1);
            } else {
                let candidates: Vec<String> = new
                    .keys()
                    .filter(|p| !old.contains_key(*p) && in_sparse(&patterns, p) && !p.starts_with('.'))
                    .cloned()
                    .collect();
                if let Some(p) = candidates.get(self.ch.choose(candidates.len().max(1))).cloned() {
                    let disk_path = self.env.ws.join(&p);
                    // only when nothing (tracked) is in the way of creating it
                    if std::fs::symlink_metadata(&disk_path).is_err() && disk_path.parent().is_some_and(Path::is_dir) {
                        let bytes = b"untracked, do not touch\n".to_vec();
                        std::fs::write(&disk_path, &bytes).unwrap();
                        Ticks::restamp(&disk_path);
                        obstacles.push((p.clone(), DiskEntry::File { bytes, exec: false }));
                        self.note(format!("user creates untracked {p} in the way of the checkout"));
                        self.out.probe("obstacle_untracked_file", 1);
                    }
                }
            }
        }
        // ignored file that the update does not touch must survive
        let ign = self.env.ws.join("ign");
        if !new.contains_key("ign") && !old.contains_key("ign") && std::fs::symlink_metadata(&ign).is_err() && self.ch.chance(1, 3) {
            std::fs::write(&ign, b"ignored build output\n").unwrap();
            Ticks::restamp(&ign);
            self.note("user creates ignored file ign".to_string());
        }
        let disk_before = read_disk(&self.env.ws);
        let dirs_before = list_dirs(&self.env.ws);
        let outside_before = read_disk(&outside);
        let res = ts.check_out(&new_tree);
        let stats = match res {
            Ok(s) => s,
            Err(e) => {
                if obstacles.iter().any(|(p, _)| p == "d") {
                    // refusing to write through the symlink is fine
                    self.note(format!("jj check_out failed (symlinked directory in the way): {e}"));
                    if read_disk(&outside) != outside_before {
                        self.violate("C25", "checkout_wrote_through_symlink", "checkout failed but files appeared in the directory outside the workspace".to_string());
                    }
                    self.stopped = true;
                    return false;
                }
                self.violate("C24", "checkout_failed", format!("check_out failed: {e}"));
                return false;
            }
        };
        ts.save().unwrap();
        self.scan();
        self.note(format!(
            "jj check_out {tag}: added {} updated {} removed {} skipped {}; tree = {:?}",
            stats.added_files,
            stats.updated_files,
            stats.removed_files,
            stats.skipped_files,
            new.iter().map(|(p, e)| format!("{p}={}", short_entry(e))).collect::<Vec<_>>()
        ));
        let disk_after = read_disk(&self.env.ws);
        // C25: nothing outside the workspace, obstacles untouched
        if read_disk(&outside) != outside_before {
            self.violate("C25", "checkout_wrote_through_symlink", format!("files appeared in {} (outside the workspace) through a symlinked directory", outside.display()));
            return false;
        }
        for (p, e) in &obstacles {
            if disk_after.get(p) != Some(e) {
                self.violate(
                    "C25",
                    "untracked_file_overwritten",
                    format!("untracked {p} placed before the checkout was {:?}, is now {:?}", short_disk(e), disk_after.get(p).map(short_disk)),
                );
                return false;
            }
        }
        if !obstacles.is_empty() {
            if stats.skipped_files == 0 && obstacles.iter().all(|(p, _)| p != "d") {
                self.violate("C25", "skipped_path_not_reported", "an untracked file stood in the way but no path was reported skipped".to_string());
                return false;
            }
            // the rest of such a run is not judged (tree state and disk differ on purpose)
            self.stopped = true;
            return false;
        }
        // C24 / C25: expected disk = old disk with the diff applied
        let mut paths: Vec<String> = old.keys().chain(new.keys()).chain(disk_before.keys()).chain(disk_after.keys()).cloned().collect();
        paths.sort();
        paths.dedup();
        self.materialized.clear();
        self.edited_conflicts.clear();
        for p in &paths {
            let touched = in_sparse(&patterns, p) && old.get(p) != new.get(p);
            let expect = if touched {
                expected_disk_entry(&self.env, &new_tree, p)
            } else {
                // untouched paths: unless a parent directory was replaced by a
                // file (or the reverse), they stay as they were
                let replaced_parent = paths.iter().any(|q| {
                    q != p
                        && (p.starts_with(&format!("{q}/")) || q.starts_with(&format!("{p}/")))
                        && in_sparse(&patterns, q)
                        && old.get(q) != new.get(q)
                        && new.contains_key(q)
                });
                if replaced_parent {
                    continue;
                }
                disk_before.get(p).cloned()
            };
            if let (Some(TreeEntry::Conflict(_)), Some(DiskEntry::File { bytes, .. })) = (new.get(p), &expect)
                && in_sparse(&patterns, p)
            {
                self.materialized.insert(p.clone(), bytes.clone());
            }
            if touched
                && !old.contains_key(p)
                && new.contains_key(p)
                && disk_before.contains_key(p)
            {
                // an untracked file (ignored, so the snapshot before the checkout
                // did not pick it up) stands where the new tree wants a file:
                // C25 demands that it is skipped, not overwritten
                if disk_after.get(p) != disk_before.get(p) {
                    self.violate(
                        "C25",
                        "ignored_file_overwritten",
                        format!("ignored untracked {p} was {:?} before the checkout and is {:?} after it", disk_before.get(p).map(short_disk), disk_after.get(p).map(short_disk)),
                    );
                    return false;
                }
                if stats.skipped_files == 0 {
                    self.violate("C25", "skipped_path_not_reported", format!("ignored untracked {p} stood in the way but no path was reported skipped"));
                    return false;
                }
                self.note(format!("path {p} skipped: ignored untracked file in the way"));
                self.out.probe("obstacle_ignored_file", 1);
                self.stopped = true;
                return false;
            }
            if disk_after.get(p) != expect.as_ref()
                && stats.skipped_files > 0
                && touched
                && disk_after.get(p).is_none()
                && dirs_before.contains(p)
            {
                // an (empty) untracked directory left behind by the user stood
                // where the tree has a file: skipped like any other obstacle
                self.note(format!("path {p} skipped: untracked directory in the way"));
                self.out.probe("obstacle_leftover_directory", 1);
                self.stopped = true;
                return false;
            }
            if disk_after.get(p) != expect.as_ref() {
                let (prop, inv) = if !touched {
                    ("C25", "checkout_changed_unrelated_file")
                } else if matches!((&expect, disk_after.get(p)), (Some(DiskEntry::File { bytes: a, .. }), Some(DiskEntry::File { bytes: b, .. })) if a != b && to_lf(a) == to_lf(b)) {
                    ("C29", "eol_conversion_mismatch_on_checkout")
                } else {
                    ("C24", "disk_differs_from_tree_after_checkout")
                };
                self.violate(
                    prop,
                    inv,
                    format!(
                        "path {p}: old tree {:?}, new tree {:?}, disk before {:?}, disk after {:?}, expected {:?}",
                        old.get(p).map(short_entry),
                        new.get(p).map(short_entry),
                        disk_before.get(p).map(short_disk),
                        disk_after.get(p).map(short_disk),
                        expect.as_ref().map(short_disk)
                    ),
                );
                return false;
            }
        }
        // conflict files materialised in the old tree and untouched keep their record
        for (p, e) in &old {
            if matches!(e, TreeEntry::Conflict(_))
                && new.get(p) == Some(e)
                && let Some(DiskEntry::File { bytes, .. }) = disk_after.get(p)
            {
                self.materialized.insert(p.clone(), bytes.clone());
            }
        }
        self.out.probe("checkout_checked", 1);
        if new.values().any(|e| matches!(e, TreeEntry::Conflict(_))) {
            self.out.probe("checkout_with_conflict", 1);
        }
        // The checkout may have rewritten or removed ignore files, so that files
        // the user left behind (ignored until now) are no longer ignored: the
        // next snapshot legitimately picks those up. Then the identity claim
        // does not apply; the general snapshot oracle judges instead.
        {
            let ignores = IgnoreModel::from_disk(&self.env.ws);
            let leftovers: Vec<&String> = disk_after
                .keys()
                .filter(|p| in_sparse(&patterns, p) && !new.contains_key(*p) && !ignores.ignored(p))
                .collect();
            if !leftovers.is_empty() {
                self.note(format!("files no longer ignored after the checkout: {leftovers:?}"));
                self.out.probe("leftover_became_unignored_by_checkout", 1);
                return self.snapshot(ts, "after checkout (unignored leftovers)");
            }
        }
        // C24: an immediate snapshot (same tick or next) returns the identical tree
        if self.ch.chance(1, 2) {
            let (a, b) = self.dirs();
            Ticks::advance(&[&a, &b]);
        }
        let reload = self.ch.chance(1, 2);
        let mut ts2;
        let tsr: &mut TreeState = if reload {
            ts2 = self.load();
            &mut ts2
        } else {
            ts
        };
        let want_tree = tsr.current_tree().clone();
        let options = SnapshotOptions {
            base_ignores: GitIgnoreFile::empty(),
            progress: None,
            start_tracking_matcher: &EverythingMatcher,
            force_tracking_matcher: &NothingMatcher,
            max_new_file_size: u64::MAX,
        };
        if let Err(e) = tsr.snapshot(&options).block_on() {
            self.violate("C24", "snapshot_after_checkout_failed", format!("{e}"));
            return false;
        }
        if tsr.current_tree().tree_ids_and_labels() != want_tree.tree_ids_and_labels() {
            let a = read_tree(&self.env.store, tsr.current_tree());
            let diff: Vec<String> = a
                .iter()
                .filter(|(p, e)| new.get(*p) != Some(e))
                .map(|(p, e)| format!("{p}: {:?} (tree had {:?})", short_entry(e), new.get(p).map(short_entry)))
                .chain(new.keys().filter(|p| !a.contains_key(*p)).map(|p| format!("{p}: missing")))
                .collect();
            let inv = if diff.iter().any(|d| d.contains("Conflict")) { ("C06", "conflict_changed_by_immediate_snapshot") } else { ("C24", "immediate_snapshot_differs_from_checked_out_tree") };
            self.violate(inv.0, inv.1, format!("snapshot right after check_out {tag} returned a different tree: {diff:?}"));
            return false;
        }
        if reload {
            tsr.save().unwrap();
            *ts = self.load();
        } else {
            ts.save().unwrap();
        }
        self.scan();
        self.out.probe("immediate_snapshot_identical", 1);
        // C24: same disk as a fresh checkout into an empty workspace
        if self.ch.chance(1, 3) && patterns == vec![RepoPathBuf::root()] {
            let ws2 = self.env.ws.parent().unwrap().join("fresh-ws");
            let st2 = self.env.ws.parent().unwrap().join("fresh-state");
            let _ = std::fs::remove_dir_all(&ws2);
            let _ = std::fs::remove_dir_all(&st2);
            std::fs::create_dir_all(&ws2).unwrap();
            std::fs::create_dir_all(&st2).unwrap();
            let mut fresh = TreeState::init(self.env.store.clone(), ws2.clone(), st2.clone(), &self.env.settings).unwrap();
            if fresh.check_out(&new_tree).is_ok() {
                let mut d1 = read_disk(&self.env.ws);
                let d2 = read_disk(&ws2);
                // ignored leftovers of the user are not part of the tree; the
                // rules are those of the ignore files now on disk (checked out
                // with the tree) - an ignored file is never in a generated tree
                let ignores = IgnoreModel::from_disk(&self.env.ws);
                d1.retain(|p, _| new.contains_key(p) || !ignores.ignored(p));
                // A file the switch did not touch may have been rewritten by the
                // user in a form that normalises to the same stored content (LF
                // vs CRLF under EOL conversion); it legitimately stays as the
                // user left it.
                let eol = self.env.eol;
                let equivalent = |p: &String| -> bool {
                    old.get(p) == new.get(p)
                        && matches!(
                            (d1.get(p), d2.get(p)),
                            (Some(DiskEntry::File { bytes: a, exec: ea }), Some(DiskEntry::File { bytes: b, exec: eb }))
                                if ea == eb && snapshot_convert(eol, a) == snapshot_convert(eol, b)
                        )
                };
                let diff: Vec<&String> = d1.keys().chain(d2.keys()).filter(|p| d1.get(*p) != d2.get(*p) && !equivalent(p)).collect();
                if !diff.is_empty() {
                    self.violate("C24", "switch_differs_from_fresh_checkout", format!("after switching to {tag} the disk differs from a fresh checkout at {:?}", diff.iter().map(|p| format!("{p}: {:?} vs fresh {:?}", d1.get(*p).map(short_disk), d2.get(*p).map(short_disk))).collect::<Vec<_>>()));
                    return false;
                }
                self.out.probe("fresh_checkout_compared", 1);
            }
            let _ = std::fs::remove_dir_all(&ws2);
            let _ = std::fs::remove_dir_all(&st2);
        }
        true
    }

    // ---- sparse patterns (C27) ----
    fn set_sparse(&mut self, ts: &mut TreeState) -> bool {
        if !self.snapshot(ts, "before sparse change") {
            return false;
        }
        for p in remove_special_files(&self.env.ws) {
            self.note(format!("user removes fifo {p}"));
        }
        let choices: [&[&str]; 9] = [&[""], &["d"], &["a", "d/e"], &["b", "x"], &[], &["a", "a2"], &["d2", "d"], &["d", "d/e", "a2"], &["d/e", "d"]];
        let pats: Vec<RepoPathBuf> = choices[self.ch.choose(choices.len())]
            .iter()
            .map(|p| if p.is_empty() { RepoPathBuf::root() } else { rp(p) })
            .collect();
        let old_pats = ts.sparse_patterns().clone();
        let tree_before = ts.current_tree().clone();
        let tree = read_tree(&self.env.store, ts.current_tree());
        let disk_before = read_disk(&self.env.ws);
        let dirs_before = list_dirs(&self.env.ws);
        let res = ts.set_sparse_patterns(pats.clone());
        if let Err(e) = res {
            self.violate("C27", "set_sparse_patterns_failed", format!("{e}"));
            return false;
        }
        ts.save().unwrap();
        self.scan();
        self.note(format!("jj set_sparse_patterns {:?}", pats.iter().map(|p| p.as_internal_file_string().to_string()).collect::<Vec<_>>()));
        if ts.current_tree().tree_ids_and_labels() != tree_before.tree_ids_and_labels() {
            self.violate("C27", "sparse_change_altered_tree", "the working-copy tree changed when only the sparse patterns changed".to_string());
            return false;
        }
        let disk_after = read_disk(&self.env.ws);
        let cur_tree = ts.current_tree().clone();
        let mut paths: Vec<String> = tree.keys().chain(disk_before.keys()).chain(disk_after.keys()).cloned().collect();
        paths.sort();
        paths.dedup();
        for p in &paths {
            let was = in_sparse(&old_pats, p);
            let is = in_sparse(&pats, p);
            let expect = match (was, is, tree.contains_key(p)) {
                // something untracked already stands there: skipped, not overwritten
                (false, true, true) if disk_before.contains_key(p) || dirs_before.contains(p) => disk_before.get(p).cloned(),
                (false, true, true) => expected_disk_entry(&self.env, &cur_tree, p),
                (true, false, true) => None,
                _ => disk_before.get(p).cloned(),
            };
            if let (Some(TreeEntry::Conflict(_)), Some(DiskEntry::File { bytes, .. }), false, true) = (tree.get(p), &expect, was, is) {
                self.materialized.insert(p.clone(), bytes.clone());
            }
            if disk_after.get(p) != expect.as_ref() {
                self.violate(
                    "C27",
                    "sparse_change_wrong_disk_effect",
                    format!(
                        "path {p} (in old patterns: {was}, in new: {is}, in tree: {}): disk before {:?}, after {:?}, expected {:?}",
                        tree.contains_key(p),
                        disk_before.get(p).map(short_disk),
                        disk_after.get(p).map(short_disk),
                        expect.as_ref().map(short_disk)
                    ),
                );
                return false;
            }
        }
        self.out.probe("sparse_change_checked", 1);
        true
    }
}

fn short_disk(e: &DiskEntry) -> String {
    match e {
        DiskEntry::File { bytes, exec } => format!("File({:?}{})", String::from_utf8_lossy(&bytes[..bytes.len().min(40)]), if *exec { ",x" } else { "" }),
        DiskEntry::Symlink(t) => format!("Symlink({t})"),
    }
}

fn short_entry(e: &TreeEntry) -> String {
    match e {
        TreeEntry::File { bytes, exec } => format!("File({:?}{})", String::from_utf8_lossy(&bytes[..bytes.len().min(40)]), if *exec { ",x" } else { "" }),
        TreeEntry::Symlink(t) => format!("Symlink({t})"),
        TreeEntry::Conflict(m) => format!("Conflict({} terms)", m.iter().count()),
    }
}

impl Engine for WcSim {
    fn name(&self) -> &'static str {
        "wcsim"
    }

    fn properties(&self) -> Vec<&'static str> {
        vec!["C23", "C24", "C25", "C26", "C27", "C06", "C29"]
    }

    fn budget(&self, _prop: &str, tier: Tier) -> Budget {
        match tier {
            Tier::Quick => Budget { runs: 6_000, max_seconds: 60 },
            Tier::Thorough => Budget { runs: 400_000, max_seconds: 900 },
        }
    }

    fn rule(&self, _prop: &str) -> String {
        "one evaluation = one simulated history of 8-30 steps on one workspace: user edits (write, same-size rewrite, delete, chmod, symlink, \
         file<->directory swap, touch, untracked/ignored obstacles, symlink to an outside directory), jj snapshot / check_out of generated trees \
         (files, executables, symlinks, 3- and 5-term conflicts) / sparse-pattern changes / reloads, with the simulated clock advancing only when \
         the chooser says so; distinct = distinct (step-kind sequence, tick relation of edited file vs state file) signature; non-trivial = at least one \
         jj operation followed a user edit made in the same tick as the previous state save, or an obstacle was placed"
            .to_string()
    }

    fn components_real(&self) -> Vec<&'static str> {
        vec![
            "jj_lib::local_working_copy::TreeState (snapshot, check_out, set_sparse_patterns, save/load, file states)",
            "jj_lib::conflicts (materialize / parse back)",
            "jj_lib::eol",
            "jj_lib::gitignore",
            "jj_lib::simple_backend + Store",
            "tmpfs directory",
        ]
    }

    fn components_stub(&self) -> Vec<&'static str> {
        vec!["file modification times as jj sees them (hook H3: simulated ticks owned by the harness)"]
    }

    fn assumptions(&self, _prop: &str) -> Vec<String> {
        vec![
            "a file system never reports for a write made at time t an mtime older than its clock tick at t (coarse but monotone)".to_string(),
            "jj does not run concurrently with the edits (one simulated process); edits happen between jj operations".to_string(),
        ]
    }

    fn fault_kinds(&self) -> Vec<&'static str> {
        vec!["coarse_clock_same_tick", "future_dated_write", "edit_preserving_mtime", "touch_without_change", "obstacle_untracked_file", "obstacle_symlinked_dir", "reload_state"]
    }

    #[allow(clippy::too_many_lines)]
    fn run(&self, prop: &str, mut chooser: Chooser, scratch: &Path) -> RunOutcome {
        let mut out = RunOutcome::default();
        let scratch = std::fs::canonicalize(scratch).unwrap();
        let store_dir = scratch.join("store");
        let ws = scratch.join("ws");
        // like a real workspace: the state lives under <ws>/.jj, which also
        // keeps the workspace root from ever becoming an empty directory
        let state = ws.join(".jj").join("working_copy");
        for d in [&store_dir, &ws, &state] {
            std::fs::create_dir_all(d).unwrap();
        }
        // --- swarm configuration
        let eol = *chooser.pick(&[EolConversionMode::None, EolConversionMode::None, EolConversionMode::Input, EolConversionMode::InputOutput]);
        let style = *chooser.pick(&[ConflictMarkerStyle::Diff, ConflictMarkerStyle::Snapshot, ConflictMarkerStyle::Git]);
        let steps = chooser.range(8, 30);
        let settings_text = r#"
user.name = "Sim User"
user.email = "sim.user@example.com"
operation.username = "sim"
operation.hostname = "sim.example.com"
"#;
        let mut config = jj_lib::config::StackedConfig::with_defaults();
        config.add_layer(jj_lib::config::ConfigLayer::parse(jj_lib::config::ConfigSource::User, settings_text).unwrap());
        let user_settings = jj_lib::settings::UserSettings::from_config(config).unwrap();
        let store = Store::new(
            Box::new(SimpleBackend::init(&store_dir)),
            Signer::from_settings(&user_settings).unwrap(),
            MergeOptions::from_settings(&user_settings).unwrap(),
        );
        let settings = TreeStateSettings {
            conflict_marker_style: style,
            eol_conversion_mode: eol,
            exec_change_setting: ExecChangeSetting::Auto,
            fsmonitor_settings: FsmonitorSettings::None,
        };
        out.config = format!("eol={eol:?} style={style:?} steps={steps}");
        Ticks::install(1_000_000);
        crate::core::sched::install_global_hooks();
        let env = Env {
            store,
            ws: ws.clone(),
            state: state.clone(),
            settings,
            eol,
            style,
        };
        let mut kinds: Vec<u8> = vec![];
        let mut nontrivial = false;
        let shared_log: std::sync::Mutex<Vec<String>> = std::sync::Mutex::new(vec![]);
        let panicked = std::panic::catch_unwind(std::panic::AssertUnwindSafe(|| {
            let mut run = Run {
                env,
                ch: &mut chooser,
                out: &mut out,
                log: vec![],
                seq: 0,
                materialized: BTreeMap::new(),
                edited_conflicts: BTreeMap::new(),
                stopped: false,
                shared_log: &shared_log,
            };
            std::fs::write(ws.join(".gitignore"), GITIGNORE).unwrap();
            let mut ts = TreeState::init(run.env.store.clone(), ws.clone(), state.clone(), &run.env.settings).unwrap();
            run.scan();
            // start from a checked-out tree so that there is tracked content
            let t0 = gen_tree(&run.env, run.ch, "init", false);
            let _ = std::fs::remove_file(ws.join(".gitignore"));
            ts.check_out(&t0).unwrap();
            ts.save().unwrap();
            run.scan();
            run.note("jj check_out init".to_string());
            for _ in 0..steps {
                if run.stopped {
                    break;
                }
                let focus = match prop {
                    "C26" | "C23" | "C29" => [6, 2, 5, 1, 1, 2],
                    "C24" | "C25" | "C06" => [3, 2, 2, 5, 1, 1],
                    "C27" => [3, 2, 2, 2, 4, 1],
                    _ => [4, 2, 3, 3, 2, 1],
                };
                let k = run.ch.weighted(&focus);
                kinds.push(k as u8);
                match k {
                    0 => {
                        let state_tick = Ticks::tick_of(&state.join("tree_state"));
                        run.user_edit(&ts);
                        if state_tick == Some(Ticks::now()) {
                            nontrivial = true;
                        }
                    }
                    1 => {
                        let (a, b) = run.dirs();
                        Ticks::advance(&[&a, &b]);
                        run.out.sim_ticks += 1;
                        run.note("tick".to_string());
                    }
                    2 => {
                        run.snapshot(&mut ts, "step");
                    }
                    3 => {
                        let obstacle = run.ch.chance(if prop == "C25" { 2 } else { 1 }, 5);
                        if obstacle {
                            nontrivial = true;
                        }
                        run.checkout(&mut ts, obstacle);
                    }
                    4 => {
                        run.set_sparse(&mut ts);
                    }
                    _ => {
                        ts = run.load();
                        run.note("jj reload tree state".to_string());
                        run.out.fault("reload_state", 1);
                    }
                }
                run.maybe_advance();
            }
            if !run.stopped {
                run.snapshot(&mut ts, "final");
            }
            out.trace = std::mem::take(&mut run.log);
        }));
        if let Err(payload) = panicked {
            let msg = payload
                .downcast_ref::<String>()
                .cloned()
                .or_else(|| payload.downcast_ref::<&str>().map(|s| s.to_string()))
                .unwrap_or_else(|| "panic".to_string());
            out.trace = shared_log.lock().unwrap().clone();
            let seq = out.trace.len() as u64;
            out.trace.push(format!("PANIC {msg}"));
            if msg.contains("changed_file_states must be sorted") {
                // A debug-only assertion of jj (file states pushed for skipped
                // paths of a directory -> file transition are not re-sorted).
                // No listed property speaks about it; recorded as a probe and
                // described in DESIGN.md, never reported as a violation.
                out.probe("jj_debug_assert_unsorted_file_states_after_skips", 1);
            } else {
                out.violate(prop, "panic", "wcsim:panic".to_string(), format!("jj panicked: {}", msg.lines().take(4).collect::<Vec<_>>().join(" | ")), seq);
            }
        }
        Ticks::uninstall();
        out.events = out.trace.len() as u64;
        let same_tick = out.probes.get("same_size_edit_in_state_file_tick").copied().unwrap_or(0);
        out.fault("coarse_clock_same_tick", same_tick);
        out.fault("touch_without_change", out.probes.get("touch_conflict_file").copied().unwrap_or(0));
        out.fault("future_dated_write", out.probes.get("future_dated_write").copied().unwrap_or(0));
        out.fault("edit_preserving_mtime", out.probes.get("same_size_edit_preserving_mtime").copied().unwrap_or(0));
        out.fault("obstacle_untracked_file", out.probes.get("obstacle_untracked_file").copied().unwrap_or(0));
        out.fault("obstacle_symlinked_dir", out.probes.get("obstacle_symlinked_dir").copied().unwrap_or(0));
        out.nontrivial = nontrivial || same_tick > 0;
        let mut h: u64 = 0xcbf2_9ce4_8422_2325;
        for k in kinds.iter().chain([same_tick.min(255) as u8].iter()) {
            h ^= u64::from(*k);
            h = h.wrapping_mul(0x100_0000_01b3);
        }
        out.signature = h;
        out.choices = chooser.record.clone();
        out
    }
}
