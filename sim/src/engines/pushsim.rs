//! PushSim — jj pushing to a remote that another clone updates (C45).
//!
//! Real code: the unguarded `jj` binary (`bookmark set/delete`, `git push`,
//! `git import`), system git (`push --force-with-lease` spawned by jj, and
//! the other party's own pushes), a bare repository on tmpfs as the remote.
//! Actors are scheduled at operation granularity by the chooser; any remote
//! update between jj's fetch and its push is equivalent to one scheduled just
//! before the push, because jj takes the lease expectation from the view it
//! loaded and hands the compare-and-swap to git.

use std::collections::BTreeMap;
use std::path::Path;
use std::process::Command;

use jj_lib::object_id::ObjectId as _;
use jj_lib::ref_name::RefNameBuf;
use jj_lib::ref_name::RemoteNameBuf;
use jj_lib::ref_name::RemoteRefSymbol;
use jj_lib::repo::Repo as _;
use jj_lib::repo::RepoLoader;
use pollster::FutureExt as _;

use crate::core::chooser::Chooser;
use crate::core::runner::Budget;
use crate::core::runner::Engine;
use crate::core::runner::RunOutcome;
use crate::core::runner::Tier;
use crate::engines::crashsim::run_jj;
use crate::engines::crashsim::write_config;

pub struct PushSim;

fn s(x: &str) -> String {
    x.to_string()
}

fn git(dir: &Path, args: &[&str]) -> (bool, String) {
    let out = Command::new("git")
        .args(args)
        .current_dir(dir)
        .env_clear()
        .env("PATH", "/usr/local/bin:/usr/bin:/bin")
        .env("HOME", dir)
        .env("GIT_CONFIG_SYSTEM", "/dev/null")
        .env("GIT_CONFIG_GLOBAL", "/dev/null")
        .env("GIT_AUTHOR_NAME", "Other")
        .env("GIT_AUTHOR_EMAIL", "other@example.com")
        .env("GIT_COMMITTER_NAME", "Other")
        .env("GIT_COMMITTER_EMAIL", "other@example.com")
        .env("GIT_AUTHOR_DATE", "2001-02-03T04:05:06+00:00")
        .env("GIT_COMMITTER_DATE", "2001-02-03T04:05:06+00:00")
        .output()
        .expect("git");
    (
        out.status.success(),
        format!("{}{}", String::from_utf8_lossy(&out.stdout), String::from_utf8_lossy(&out.stderr)),
    )
}

/// refs/heads/* of the bare remote
fn remote_refs(remote: &Path) -> BTreeMap<String, String> {
    let (_, out) = git(remote, &["for-each-ref", "--format=%(refname) %(objectname)", "refs/heads"]);
    out.lines()
        .filter_map(|l| {
            let (n, id) = l.split_once(' ')?;
            Some((n.strip_prefix("refs/heads/")?.to_string(), id.to_string()))
        })
        .collect()
}

struct JjState {
    local: BTreeMap<String, Option<String>>,
    /// jj's record of the remote branch (target hex; None = absent)
    remote: BTreeMap<String, Option<String>>,
    conflicted: Vec<String>,
}

fn jj_state(ws: &Path, names: &[&str]) -> Option<JjState> {
    let text = r#"
user.name = "Sim User"
user.email = "sim.user@example.com"
operation.username = "sim"
operation.hostname = "sim.example.com"
"#;
    let mut config = jj_lib::config::StackedConfig::with_defaults();
    config.add_layer(jj_lib::config::ConfigLayer::parse(jj_lib::config::ConfigSource::User, text).unwrap());
    let settings = jj_lib::settings::UserSettings::from_config(config).unwrap();
    let loader = RepoLoader::init_from_file_system(&settings, &ws.join(".jj").join("repo"), &jj_lib::default_backend_factories::default_backend_factories()).ok()?;
    let repo = loader.load_at_head().block_on().ok()?;
    let view = repo.view();
    let origin: RemoteNameBuf = "origin".into();
    let mut st = JjState {
        local: BTreeMap::new(),
        remote: BTreeMap::new(),
        conflicted: vec![],
    };
    for n in names {
        let rn: RefNameBuf = (*n).into();
        let t = view.get_local_bookmark(&rn);
        if t.has_conflict() {
            st.conflicted.push((*n).to_string());
        }
        st.local.insert((*n).to_string(), t.as_normal().map(|id| id.hex()));
        let r = view.get_remote_bookmark(RemoteRefSymbol { name: &rn, remote: &origin });
        st.remote.insert((*n).to_string(), r.target.as_normal().map(|id| id.hex()));
    }
    Some(st)
}

impl Engine for PushSim {
    fn name(&self) -> &'static str {
        "pushsim"
    }

    fn properties(&self) -> Vec<&'static str> {
        vec!["C45"]
    }

    fn budget(&self, _prop: &str, tier: Tier) -> Budget {
        match tier {
            Tier::Quick => Budget { runs: 60, max_seconds: 100 },
            Tier::Thorough => Budget { runs: 6_000, max_seconds: 1500 },
        }
    }

    fn rule(&self, _prop: &str) -> String {
        "one evaluation = one history of 8-20 operations by two parties on one bare remote: jj bookmark create/move/delete, jj git push \
         (--bookmark / --all / --deleted), jj 'fetch' (git fetch into the backing repo + jj git import), and another clone's fast-forward, \
         forced and deleting pushes; distinct = distinct operation-kind sequence hash; non-trivial = some jj push found the remote branch \
         elsewhere than jj last recorded"
            .to_string()
    }

    fn components_real(&self) -> Vec<&'static str> {
        vec!["the unguarded jj binary (bookmark, git push, git import)", "system git 2.39 (push --force-with-lease run by jj; the other clone)", "bare remote repository on tmpfs", "jj-lib (oracle reads of jj's view)"]
    }

    fn components_stub(&self) -> Vec<&'static str> {
        vec!["jj git fetch is emulated by `git fetch` in the backing repository + `jj git import` (git 2.39 lacks `fetch --porcelain`)", "party scheduling at operation granularity (chooser)"]
    }

    fn assumptions(&self, _prop: &str) -> Vec<String> {
        vec!["git's own --force-with-lease compare-and-swap is atomic on the remote".to_string()]
    }

    fn fault_kinds(&self) -> Vec<&'static str> {
        vec!["remote_moved_behind_jj", "remote_deleted_behind_jj", "remote_created_behind_jj"]
    }

    #[allow(clippy::too_many_lines)]
    fn run(&self, prop: &str, mut ch: Chooser, scratch: &Path) -> RunOutcome {
        let mut out = RunOutcome::default();
        let scratch = std::fs::canonicalize(scratch).unwrap();
        write_config(&scratch);
        let remote = scratch.join("remote.git");
        let other = scratch.join("other");
        let ws = scratch.join("ws");
        std::fs::create_dir_all(&remote).unwrap();
        git(&remote, &["init", "-q", "--bare", "."]);
        let mut num = 10u64;
        let mut jj = |args: &[String], cwd: &Path| -> (bool, String) {
            num += 1;
            match run_jj(&scratch, cwd, num, args) {
                Ok(o) => (o.status.success(), format!("{}{}", String::from_utf8_lossy(&o.stdout), String::from_utf8_lossy(&o.stderr))),
                Err(e) => (false, e.to_string()),
            }
        };
        let (ok, msg) = jj(&[s("git"), s("init"), s("--no-colocate"), s("ws")], &scratch);
        if !ok {
            out.harness_error = Some(format!("jj git init failed: {msg}"));
            return out;
        }
        jj(&[s("git"), s("remote"), s("add"), s("origin"), remote.to_string_lossy().into_owned()], &ws);
        std::fs::create_dir_all(&other).unwrap();
        git(&other, &["init", "-q", "."]);
        git(&other, &["remote", "add", "origin", &remote.to_string_lossy()]);
        let names = ["b0", "b1"];
        let steps = ch.range(8, 20);
        let mut trace: Vec<String> = vec![];
        let mut seq = 0u64;
        let mut kinds: Vec<u8> = vec![];
        let mut behind = 0u64;
        macro_rules! note {
            ($($a:tt)*) => {{ seq += 1; trace.push(format!("{:04} {}", seq, format!($($a)*))); }};
        }
        for step in 0..steps {
            let k = ch.weighted(&[4, 4, 3, 2]);
            kinds.push(k as u8);
            match k {
                0 => {
                    // jj: new commit + bookmark set, or delete
                    let n = names[ch.choose(names.len())];
                    if ch.chance(1, 5) {
                        let (ok, _) = jj(&[s("bookmark"), s("delete"), s(n)], &ws);
                        note!("jj bookmark delete {n} ({})", if ok { "ok" } else { "refused" });
                    } else {
                        let onto = if ch.chance(1, 2) { s("root()") } else { s("@") };
                        jj(&[s("new"), onto, s("-m"), format!("jj {step}")], &ws);
                        std::fs::write(ws.join("f"), format!("{step}\n")).unwrap();
                        let (ok, msg) = jj(&[s("bookmark"), s("set"), s(n), s("-r"), s("@"), s("--allow-backwards")], &ws);
                        note!("jj new + bookmark set {n} ({})", if ok { "ok".to_string() } else { msg.lines().next().unwrap_or("").to_string() });
                        // sometimes a tag of the *same name* is set as well: a push of
                        // both then has two ref updates whose short names coincide, and
                        // the remote may accept one and reject the other
                        if ch.chance(1, 3) {
                            let (ok, _) = jj(&[s("tag"), s("set"), s(n), s("-r"), s("@"), s("--allow-move")], &ws);
                            note!("jj tag set {n} ({})", if ok { "ok" } else { "refused" });
                            out.probe("tag_with_bookmark_name_set", 1);
                        }
                    }
                }
                1 => {
                    // the other clone: ff push, forced push, delete
                    let n = names[ch.choose(names.len())];
                    let refs = remote_refs(&remote);
                    match ch.weighted(&[4, 2, 2]) {
                        0 => {
                            git(&other, &["fetch", "-q", "origin"]);
                            if refs.contains_key(n) {
                                git(&other, &["checkout", "-q", "--detach", &format!("origin/{n}")]);
                            }
                            git(&other, &["commit", "-q", "--allow-empty", "-m", &format!("other {step}")]);
                            let (ok, _) = git(&other, &["push", "-q", "origin", &format!("HEAD:refs/heads/{n}")]);
                            note!("other: commit on top and push {n} ({})", if ok { "ok" } else { "rejected" });
                        }
                        1 => {
                            git(&other, &["checkout", "-q", "--orphan", &format!("o{step}")]);
                            git(&other, &["commit", "-q", "--allow-empty", "-m", &format!("other forced {step}")]);
                            let (ok, _) = git(&other, &["push", "-q", "-f", "origin", &format!("HEAD:refs/heads/{n}")]);
                            note!("other: force-push unrelated commit to {n} ({})", if ok { "ok" } else { "failed" });
                        }
                        _ => {
                            if refs.contains_key(n) {
                                let (ok, _) = git(&other, &["push", "-q", "origin", &format!(":refs/heads/{n}")]);
                                note!("other: delete {n} on the remote ({})", if ok { "ok" } else { "failed" });
                            }
                        }
                    }
                }
                2 => {
                    // jj fetch (emulated)
                    let gitdir = ws.join(".jj").join("repo").join("store").join("git");
                    let (ok, msg) = git(&gitdir, &["fetch", "-q", "--prune", "origin"]);
                    let (ok2, msg2) = jj(&[s("git"), s("import")], &ws);
                    note!("jj fetch ({}{})", if ok && ok2 { "ok" } else { "failed: " }, if ok && ok2 { String::new() } else { format!("{msg} {msg2}").lines().next().unwrap_or("").to_string() });
                }
                _ => {
                    // jj git push
                    let Some(before) = jj_state(&ws, &names) else {
                        out.harness_error = Some("cannot load jj state".to_string());
                        break;
                    };
                    let refs_before = remote_refs(&remote);
                    let mode = ch.weighted(&[3, 2, 1, 2]);
                    let mut args = vec![s("git"), s("push")];
                    let pushed: Vec<&str> = match mode {
                        0 => {
                            let n = names[ch.choose(names.len())];
                            args.push(s("--bookmark"));
                            args.push(s(n));
                            vec![n]
                        }
                        1 => {
                            args.push(s("--all"));
                            args.push(s("--deleted"));
                            names.to_vec()
                        }
                        3 => {
                            // bookmark and tag of the same name in one push
                            let n = names[ch.choose(names.len())];
                            args.push(s("--bookmark"));
                            args.push(s(n));
                            args.push(s("--tag"));
                            args.push(s(n));
                            out.probe("push_bookmark_and_tag_of_same_name", 1);
                            vec![n]
                        }
                        _ => {
                            args.push(s("--deleted"));
                            names.iter().copied().filter(|n| before.local[*n].is_none()).collect()
                        }
                    };
                    args.push(s("--allow-empty-description"));
                    let (ok, msg) = jj(&args, &ws);
                    let refs_after = remote_refs(&remote);
                    let Some(after) = jj_state(&ws, &names) else {
                        out.harness_error = Some("cannot load jj state".to_string());
                        break;
                    };
                    note!("jj {} -> {} | {}", args[1..].join(" "), if ok { "ok" } else { "failed" }, msg.lines().filter(|l| !l.trim().is_empty()).take(4).collect::<Vec<_>>().join(" / "));
                    for n in names {
                        let rb = refs_before.get(n).cloned();
                        let ra = refs_after.get(n).cloned();
                        let recorded = before.remote[n].clone();
                        let local = before.local[n].clone();
                        let was_pushed = pushed.contains(&n);
                        note!(
                            "    {n}: local {:?} recorded {:?} | remote {:?} -> {:?} | recorded after {:?}",
                            local.as_ref().map(|x| &x[..8]),
                            recorded.as_ref().map(|x| &x[..8]),
                            rb.as_ref().map(|x| &x[..8]),
                            ra.as_ref().map(|x| &x[..8]),
                            after.remote[n].as_ref().map(|x| &x[..8])
                        );
                        if rb != recorded {
                            // the remote moved behind jj's back: must be left alone
                            behind += 1;
                            out.fault(
                                match (&rb, &recorded) {
                                    (None, _) => "remote_deleted_behind_jj",
                                    (_, None) => "remote_created_behind_jj",
                                    _ => "remote_moved_behind_jj",
                                },
                                1,
                            );
                            if ra != rb {
                                out.violate(
                                    prop,
                                    "push_overwrote_unseen_remote_change",
                                    "pushsim:push_overwrote_unseen_remote_change".into(),
                                    format!("{n}: jj last recorded {:?} for the remote branch, the remote had {:?}; after `jj {}` the remote has {:?}", recorded, rb, args[1..].join(" "), ra),
                                    seq,
                                );
                            } else if after.remote[n] != recorded && after.remote[n] != rb {
                                out.violate(
                                    prop,
                                    "record_changed_after_rejected_push",
                                    "pushsim:record_changed_after_rejected_push".into(),
                                    format!("{n}: push could not touch the remote ({:?}) but jj's record changed from {:?} to {:?}", rb, recorded, after.remote[n]),
                                    seq,
                                );
                            } else if after.local[n] != local && !before.conflicted.contains(&n.to_string()) {
                                out.violate(prop, "local_bookmark_changed_by_push", "pushsim:local_bookmark_changed_by_push".into(), format!("{n}: local bookmark changed from {:?} to {:?} during a push", local, after.local[n]), seq);
                            }
                        } else if !was_pushed || before.conflicted.contains(&n.to_string()) {
                            // not part of this push: the remote must not move
                            if ra != rb {
                                out.violate(prop, "unrequested_branch_changed", "pushsim:unrequested_branch_changed".into(), format!("{n} was not pushed but the remote moved from {:?} to {:?}", rb, ra), seq);
                            }
                        } else if ok {
                            // lease held and the command succeeded: the remote is
                            // where jj wanted it or untouched (when nothing was to
                            // be done for this bookmark); never somewhere else
                            if ra != local && ra != rb {
                                out.violate(prop, "remote_branch_at_unexpected_position", "pushsim:remote_branch_at_unexpected_position".into(), format!("{n}: pushed {:?}, remote was {:?}, now {:?}", local, rb, ra), seq);
                            }
                            if ra == local && ra != rb && after.remote[n] != local {
                                out.violate(prop, "record_not_updated_after_push", "pushsim:record_not_updated_after_push".into(), format!("{n}: remote now {:?} but jj records {:?}", ra, after.remote[n]), seq);
                            }
                            if ra == local && ra != rb {
                                out.probe("push_applied", 1);
                            }
                        } else if ra != rb && ra != local {
                            out.violate(prop, "remote_branch_at_unexpected_position", "pushsim:remote_branch_at_unexpected_position".into(), format!("{n}: failed push left the remote at {:?} (was {:?}, local {:?})", ra, rb, local), seq);
                        }
                    }
                }
            }
            if !out.violations.is_empty() || out.harness_error.is_some() {
                break;
            }
        }
        out.events = seq;
        out.trace = trace;
        out.nontrivial = behind > 0;
        out.probe("push_with_remote_behind_jj", behind);
        let mut h: u64 = 0xcbf2_9ce4_8422_2325;
        for k in &kinds {
            h ^= u64::from(*k);
            h = h.wrapping_mul(0x100_0000_01b3);
        }
        h ^= behind.min(7) << 8;
        out.signature = h;
        out.choices = ch.record.clone();
        out
    }
}
