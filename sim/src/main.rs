mod core;
mod engines;
mod ptrace;

use std::path::PathBuf;

use crate::core::runner;
use crate::core::runner::Tier;

fn usage() -> ! {
    eprintln!(
        "usage:\n  jjsim check <PROP> [--tier quick|thorough] [--seed N] [--runs N] [--workers N] [--max-seconds N] [--no-evidence]\n  jjsim replay <file>\n  jjsim trace <engine> <PROP> --seed N --index I   (print the event log of one run)\n  jjsim worker ... (internal)"
    );
    std::process::exit(2);
}

struct Args {
    pos: Vec<String>,
    opts: std::collections::BTreeMap<String, String>,
    flags: Vec<String>,
}

fn parse_args() -> Args {
    let mut pos = vec![];
    let mut opts = std::collections::BTreeMap::new();
    let mut flags = vec![];
    let mut it = std::env::args().skip(1);
    while let Some(a) = it.next() {
        if let Some(name) = a.strip_prefix("--") {
            if matches!(name, "no-evidence" | "replay-check") {
                flags.push(name.to_string());
            } else {
                let v = it.next().unwrap_or_else(|| usage());
                opts.insert(name.to_string(), v);
            }
        } else {
            pos.push(a);
        }
    }
    Args { pos, opts, flags }
}

fn tier_of(args: &Args) -> Tier {
    let t = args
        .opts
        .get("tier")
        .cloned()
        .or_else(|| std::env::var("VERIF_TIER").ok())
        .unwrap_or_else(|| "quick".to_string());
    match t.as_str() {
        "thorough" => Tier::Thorough,
        _ => Tier::Quick,
    }
}

fn seed_of(args: &Args) -> u64 {
    args.opts
        .get("seed")
        .cloned()
        .or_else(|| std::env::var("VERIF_SEED").ok())
        .and_then(|s| s.trim().parse::<u64>().ok())
        .unwrap_or(1)
}

fn main() {
    let args = parse_args();
    let Some(cmd) = args.pos.first().cloned() else { usage() };
    let code = match cmd.as_str() {
        "check" => {
            let prop = args.pos.get(1).cloned().unwrap_or_else(|| usage());
            if prop == "C15" {
                let workers = args
                    .opts
                    .get("workers")
                    .and_then(|s| s.parse().ok())
                    .unwrap_or_else(|| std::thread::available_parallelism().map_or(8, |n| n.get() as u64));
                let code = engines::crashsim::check_main(
                    tier_of(&args),
                    seed_of(&args),
                    workers,
                    !args.flags.iter().any(|f| f == "no-evidence") && std::env::var_os("VERIF_NO_EVIDENCE").is_none(),
                    args.opts.get("runs").and_then(|s| s.parse().ok()),
                    args.opts.get("max-seconds").and_then(|s| s.parse().ok()),
                );
                std::process::exit(code);
            }
            let Some(engine) = engines::for_property(&prop) else {
                eprintln!("no engine serves property {prop}");
                std::process::exit(2);
            };
            let workers = args
                .opts
                .get("workers")
                .and_then(|s| s.parse().ok())
                .or_else(|| std::env::var("VERIF_WORKERS").ok().and_then(|s| s.parse().ok()))
                .unwrap_or_else(|| std::thread::available_parallelism().map_or(8, |n| n.get() as u64));
            let b = runner::BatchArgs {
                prop,
                tier: tier_of(&args),
                seed: seed_of(&args),
                runs: args.opts.get("runs").and_then(|s| s.parse().ok()),
                workers,
                max_seconds: args.opts.get("max-seconds").and_then(|s| s.parse().ok()),
                write_evidence: !args.flags.iter().any(|f| f == "no-evidence") && std::env::var_os("VERIF_NO_EVIDENCE").is_none(),
            };
            runner::batch_main(engine.as_ref(), &b)
        }
        "worker" => {
            let name = args.pos.get(1).cloned().unwrap_or_else(|| usage());
            let engine = engines::by_name(&name).unwrap_or_else(|| usage());
            let get = |k: &str| args.opts.get(k).cloned().unwrap_or_else(|| usage());
            let w = runner::WorkerArgs {
                prop: get("prop"),
                tier: tier_of(&args),
                seed: get("seed").parse().unwrap(),
                start: get("start").parse().unwrap(),
                stride: get("stride").parse().unwrap(),
                runs: get("runs").parse().unwrap(),
                max_seconds: get("max-seconds").parse().unwrap(),
                out: PathBuf::from(get("out")),
            };
            runner::worker_main(engine.as_ref(), &w);
            0
        }
        "crashworker" => {
            let get = |k: &str| args.opts.get(k).cloned().unwrap_or_else(|| usage());
            engines::crashsim::worker_main(
                &PathBuf::from(get("base")),
                get("start").parse().unwrap(),
                get("stride").parse().unwrap(),
                get("max-seconds").parse().unwrap(),
            );
            0
        }
        "replay" => {
            let file = PathBuf::from(args.pos.get(1).cloned().unwrap_or_else(|| usage()));
            let text = std::fs::read_to_string(&file).unwrap_or_else(|e| {
                eprintln!("cannot read {}: {e}", file.display());
                std::process::exit(2);
            });
            let doc: serde_json::Value = serde_json::from_str(&text).unwrap_or_else(|e| {
                eprintln!("bad replay file: {e}");
                std::process::exit(2);
            });
            let name = doc["engine"].as_str().unwrap_or("");
            if name == "crashsim" {
                std::process::exit(engines::crashsim::replay_main(&file, &doc));
            }
            let engine = engines::by_name(name).unwrap_or_else(|| {
                eprintln!("unknown engine {name}");
                std::process::exit(2);
            });
            runner::replay_main(engine.as_ref(), &file, &doc)
        }
        "trace" => {
            // Prints the full event log of run `index` under `seed`; used by
            // the determinism proof (two processes, diff the output).
            let name = args.pos.get(1).cloned().unwrap_or_else(|| usage());
            let prop = args.pos.get(2).cloned().unwrap_or_else(|| usage());
            let engine = engines::by_name(&name).unwrap_or_else(|| usage());
            let seed = seed_of(&args);
            let from: u64 = args.opts.get("from").and_then(|s| s.parse().ok()).unwrap_or(0);
            let to: u64 = args.opts.get("to").and_then(|s| s.parse().ok()).unwrap_or(from + 1);
            for index in from..to {
                let run_seed = core::chooser::derive_seed(seed, engine.name(), index);
                let out = runner::run_once(
                    engine.as_ref(),
                    &prop,
                    core::chooser::Chooser::from_seed(run_seed),
                    "trace",
                );
                println!("== run {index} seed {run_seed:#x} cfg {}", out.config);
                for l in &out.trace {
                    println!("{l}");
                }
                for v in &out.violations {
                    println!("!! {} {} {} @{}", v.property, v.invariant, v.message, v.at_event);
                }
                if let Some(e) = &out.harness_error {
                    println!("!! harness error {e}");
                }
                println!("== sig {:016x} choices {}", out.signature, out.choices.len());
            }
            runner::cleanup_scratch_base();
            0
        }
        _ => usage(),
    };
    std::process::exit(code);
}
