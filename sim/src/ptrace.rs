//! A small ptrace supervisor: runs one real command as tracee, stops it at
//! every syscall entry, counts the syscalls that change the file system under
//! a sandbox directory with ONE global counter over all threads, and can kill
//! the whole process (SIGKILL) at the entry of the k-th such syscall, or tear
//! the k-th `write` (shorten it, let it execute, then kill).
//!
//! Single-threaded by design: the thread that spawns the tracee is its tracer.

use std::collections::BTreeMap;
use std::ffi::OsString;
use std::os::unix::process::CommandExt as _;
use std::path::Path;
use std::path::PathBuf;
use std::process::Command;
use std::process::Stdio;

const PTRACE_GET_SYSCALL_INFO: libc::c_uint = 0x420e;
const PTRACE_SYSCALL_INFO_ENTRY: u8 = 1;
const PTRACE_SYSCALL_INFO_EXIT: u8 = 2;

#[repr(C)]
#[derive(Clone, Copy)]
struct SyscallInfo {
    op: u8,
    pad: [u8; 3],
    arch: u32,
    instruction_pointer: u64,
    stack_pointer: u64,
    // entry: nr, args[6]; exit: rval, is_error
    data: [u64; 7],
}

#[derive(Clone, Debug)]
pub struct FsSyscall {
    pub index: usize,
    pub tid: i32,
    pub name: &'static str,
    pub path: String,
    pub len: u64,
}

#[derive(Clone, Copy, Debug, PartialEq, Eq)]
pub enum KillMode {
    /// Never kill (reference run).
    None,
    /// SIGKILL at the entry of the k-th (0-based) mutating syscall.
    AtEntry(usize),
    /// The k-th mutating syscall, if it is a write of >= 2 bytes, is shortened
    /// to half its length, executed, and then the process is killed. Falls
    /// back to `AtEntry` for other syscalls.
    TornWrite(usize),
}

pub struct TraceResult {
    pub syscalls: Vec<FsSyscall>,
    pub killed: bool,
    pub torn: bool,
    pub exit_code: Option<i32>,
    pub stdout: Vec<u8>,
    pub stderr: Vec<u8>,
    pub total_syscall_stops: u64,
}

fn peek_string(tid: i32, addr: u64) -> String {
    if addr == 0 {
        return String::new();
    }
    let mut out = vec![];
    let mut a = addr;
    'outer: for _ in 0..512 {
        unsafe { *libc::__errno_location() = 0 };
        let word = unsafe { libc::ptrace(libc::PTRACE_PEEKDATA, tid, a as *mut libc::c_void, 0) };
        if word == -1 && unsafe { *libc::__errno_location() } != 0 {
            break;
        }
        for b in (word as u64).to_le_bytes() {
            if b == 0 {
                break 'outer;
            }
            out.push(b);
        }
        a += 8;
    }
    String::from_utf8_lossy(&out).into_owned()
}

fn fd_path(tid: i32, fd: u64) -> String {
    std::fs::read_link(format!("/proc/{tid}/fd/{fd}"))
        .map(|p| p.to_string_lossy().into_owned())
        .unwrap_or_default()
}

fn cwd_of(tid: i32) -> String {
    std::fs::read_link(format!("/proc/{tid}/cwd"))
        .map(|p| p.to_string_lossy().into_owned())
        .unwrap_or_default()
}

fn resolve(tid: i32, dirfd: i64, path: &str) -> String {
    if path.starts_with('/') {
        return path.to_string();
    }
    let base = if dirfd as i32 == libc::AT_FDCWD {
        cwd_of(tid)
    } else {
        fd_path(tid, dirfd as u64)
    };
    format!("{base}/{path}")
}

/// Classifies a syscall entry. Returns (name, path, len) when it changes the
/// file system under `sandbox`.
fn classify(tid: i32, nr: u64, a: &[u64; 6], sandbox: &str) -> Option<(&'static str, String, u64)> {
    let under = |p: &str| p.starts_with(sandbox);
    let at = |i: usize| resolve(tid, a[i] as i64, &peek_string(tid, a[i + 1]));
    let plain = |i: usize| resolve(tid, i64::from(libc::AT_FDCWD), &peek_string(tid, a[i]));
    let wflags = |flags: u64| -> bool {
        let f = flags as i32;
        (f & libc::O_CREAT) != 0 || (f & libc::O_TRUNC) != 0
    };
    let r = match nr as i64 {
        libc::SYS_write | libc::SYS_pwrite64 | libc::SYS_writev | libc::SYS_pwritev => {
            let p = fd_path(tid, a[0]);
            let name = match nr as i64 {
                libc::SYS_write => "write",
                libc::SYS_pwrite64 => "pwrite64",
                libc::SYS_writev => "writev",
                _ => "pwritev",
            };
            (name, p, a[2])
        }
        libc::SYS_openat => {
            if !wflags(a[2]) {
                return None;
            }
            ("openat", at(0), 0)
        }
        libc::SYS_open => {
            if !wflags(a[1]) {
                return None;
            }
            ("open", plain(0), 0)
        }
        libc::SYS_creat => ("creat", plain(0), 0),
        libc::SYS_rename => ("rename", plain(1), 0),
        libc::SYS_renameat | libc::SYS_renameat2 => ("renameat", at(2), 0),
        libc::SYS_unlink => ("unlink", plain(0), 0),
        libc::SYS_unlinkat => ("unlinkat", at(0), 0),
        libc::SYS_mkdir => ("mkdir", plain(0), 0),
        libc::SYS_mkdirat => ("mkdirat", at(0), 0),
        libc::SYS_rmdir => ("rmdir", plain(0), 0),
        libc::SYS_symlink => ("symlink", plain(1), 0),
        libc::SYS_symlinkat => ("symlinkat", resolve(tid, a[1] as i64, &peek_string(tid, a[2])), 0),
        libc::SYS_link => ("link", plain(1), 0),
        libc::SYS_linkat => ("linkat", at(2), 0),
        libc::SYS_ftruncate => ("ftruncate", fd_path(tid, a[0]), a[1]),
        libc::SYS_truncate => ("truncate", plain(0), a[1]),
        libc::SYS_chmod => ("chmod", plain(0), 0),
        libc::SYS_fchmod => ("fchmod", fd_path(tid, a[0]), 0),
        libc::SYS_fchmodat => ("fchmodat", at(0), 0),
        libc::SYS_utimensat => {
            let p = if a[1] == 0 { fd_path(tid, a[0]) } else { at(0) };
            ("utimensat", p, 0)
        }
        libc::SYS_fsync => ("fsync", fd_path(tid, a[0]), 0),
        libc::SYS_fdatasync => ("fdatasync", fd_path(tid, a[0]), 0),
        _ => return None,
    };
    if under(&r.1) { Some(r) } else { None }
}

pub struct TraceSpec<'a> {
    pub program: &'a Path,
    pub args: &'a [String],
    pub cwd: &'a Path,
    pub env: &'a [(String, String)],
    pub sandbox: &'a Path,
    pub kill: KillMode,
}

/// Runs the command under the supervisor.
pub fn run_traced(spec: &TraceSpec<'_>) -> std::io::Result<TraceResult> {
    let mut sandbox = spec.sandbox.to_string_lossy().into_owned();
    if !sandbox.ends_with('/') {
        sandbox.push('/');
    }
    let io_dir = spec.sandbox.parent().unwrap_or(Path::new("/dev/shm"));
    let out_path: PathBuf = io_dir.join(format!("trace-{}-stdout", std::process::id()));
    let err_path: PathBuf = io_dir.join(format!("trace-{}-stderr", std::process::id()));
    let out_file = std::fs::File::create(&out_path)?;
    let err_file = std::fs::File::create(&err_path)?;
    let mut cmd = Command::new(spec.program);
    cmd.args(spec.args)
        .current_dir(spec.cwd)
        .env_clear()
        .envs(spec.env.iter().map(|(k, v)| (OsString::from(k), OsString::from(v))))
        .stdin(Stdio::null())
        .stdout(Stdio::from(out_file))
        .stderr(Stdio::from(err_file));
    unsafe {
        cmd.pre_exec(|| {
            if libc::ptrace(libc::PTRACE_TRACEME, 0, 0, 0) == -1 {
                return Err(std::io::Error::last_os_error());
            }
            Ok(())
        });
    }
    let child = cmd.spawn()?;
    let leader = child.id() as i32;
    // The exec delivered SIGTRAP to the tracee.
    let mut status = 0;
    let r = unsafe { libc::waitpid(leader, &mut status, libc::__WALL) };
    if r != leader || !libc::WIFSTOPPED(status) {
        return Err(std::io::Error::other(format!("tracee did not stop after exec (status {status:#x})")));
    }
    let opts = libc::PTRACE_O_TRACESYSGOOD
        | libc::PTRACE_O_TRACECLONE
        | libc::PTRACE_O_TRACEFORK
        | libc::PTRACE_O_TRACEVFORK
        | libc::PTRACE_O_EXITKILL;
    unsafe {
        libc::ptrace(libc::PTRACE_SETOPTIONS, leader, 0, opts as libc::c_long);
        libc::ptrace(libc::PTRACE_SYSCALL, leader, 0, 0);
    }
    let mut tids: BTreeMap<i32, ()> = BTreeMap::new();
    tids.insert(leader, ());
    let mut syscalls: Vec<FsSyscall> = vec![];
    let mut killed = false;
    let mut torn = false;
    let mut torn_wait_tid: Option<i32> = None;
    let mut exit_code = None;
    let mut stops = 0u64;
    let do_kill = |killed: &mut bool| {
        if !*killed {
            *killed = true;
            unsafe { libc::kill(leader, libc::SIGKILL) };
        }
    };
    loop {
        let mut status = 0;
        let tid = unsafe { libc::waitpid(-1, &mut status, libc::__WALL | libc::__WNOTHREAD) };
        if tid == -1 {
            let e = std::io::Error::last_os_error();
            if e.raw_os_error() == Some(libc::EINTR) {
                continue;
            }
            break; // ECHILD: everything is gone
        }
        if libc::WIFEXITED(status) || libc::WIFSIGNALED(status) {
            tids.remove(&tid);
            if tid == leader {
                exit_code = if libc::WIFEXITED(status) {
                    Some(libc::WEXITSTATUS(status))
                } else {
                    None
                };
            }
            if tids.is_empty() {
                break;
            }
            continue;
        }
        if !libc::WIFSTOPPED(status) {
            continue;
        }
        tids.entry(tid).or_insert(());
        if killed {
            // Let it die.
            unsafe { libc::ptrace(libc::PTRACE_CONT, tid, 0, 0) };
            continue;
        }
        let sig = libc::WSTOPSIG(status);
        let event = (status >> 16) & 0xffff;
        if sig == (libc::SIGTRAP | 0x80) {
            stops += 1;
            let mut info = SyscallInfo {
                op: 0,
                pad: [0; 3],
                arch: 0,
                instruction_pointer: 0,
                stack_pointer: 0,
                data: [0; 7],
            };
            let n = unsafe {
                libc::ptrace(
                    PTRACE_GET_SYSCALL_INFO,
                    tid,
                    std::mem::size_of::<SyscallInfo>() as *mut libc::c_void,
                    &mut info as *mut SyscallInfo as *mut libc::c_void,
                )
            };
            if n > 0 && info.op == PTRACE_SYSCALL_INFO_ENTRY {
                let nr = info.data[0];
                let args: [u64; 6] = [info.data[1], info.data[2], info.data[3], info.data[4], info.data[5], info.data[6]];
                if let Some((name, path, len)) = classify(tid, nr, &args, &sandbox) {
                    let index = syscalls.len();
                    syscalls.push(FsSyscall {
                        index,
                        tid,
                        name,
                        path,
                        len,
                    });
                    match spec.kill {
                        KillMode::AtEntry(k) if k == index => {
                            do_kill(&mut killed);
                            continue;
                        }
                        KillMode::TornWrite(k) if k == index => {
                            if name == "write" && len >= 2 {
                                // shorten the write, let it run, kill at its exit
                                let mut regs: libc::user_regs_struct = unsafe { std::mem::zeroed() };
                                unsafe {
                                    libc::ptrace(libc::PTRACE_GETREGS, tid, 0, &mut regs as *mut _ as *mut libc::c_void);
                                }
                                regs.rdx = len / 2;
                                unsafe {
                                    libc::ptrace(libc::PTRACE_SETREGS, tid, 0, &mut regs as *mut _ as *mut libc::c_void);
                                }
                                torn = true;
                                torn_wait_tid = Some(tid);
                            } else {
                                do_kill(&mut killed);
                                continue;
                            }
                        }
                        _ => {}
                    }
                }
            } else if n > 0 && info.op == PTRACE_SYSCALL_INFO_EXIT && torn_wait_tid == Some(tid) {
                do_kill(&mut killed);
                continue;
            }
            unsafe { libc::ptrace(libc::PTRACE_SYSCALL, tid, 0, 0) };
        } else if sig == libc::SIGTRAP && event != 0 {
            // clone / fork / vfork event: the new task shows up by itself
            unsafe { libc::ptrace(libc::PTRACE_SYSCALL, tid, 0, 0) };
        } else if sig == libc::SIGSTOP && tid != leader {
            // initial stop of a new thread / child
            unsafe { libc::ptrace(libc::PTRACE_SYSCALL, tid, 0, 0) };
        } else if sig == libc::SIGTRAP {
            unsafe { libc::ptrace(libc::PTRACE_SYSCALL, tid, 0, 0) };
        } else {
            // deliver the signal
            unsafe { libc::ptrace(libc::PTRACE_SYSCALL, tid, 0, sig as libc::c_long) };
        }
    }
    drop(child);
    let stdout = std::fs::read(&out_path).unwrap_or_default();
    let stderr = std::fs::read(&err_path).unwrap_or_default();
    let _ = std::fs::remove_file(&out_path);
    let _ = std::fs::remove_file(&err_path);
    Ok(TraceResult {
        syscalls,
        killed,
        torn,
        exit_code,
        stdout,
        stderr,
        total_syscall_stops: stops,
    })
}
