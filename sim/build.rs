fn main() {
    // Export the binary's own `getrandom` so that std's weak-symbol lookup
    // (dlsym) finds it: the seam for `RandomState` keys.
    println!("cargo:rustc-link-arg-bins=-rdynamic");
}
