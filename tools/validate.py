#!/opt/veriftools/pyvenv/bin/python
"""Validates MANIFEST.json and every evidence/*.json against the harness schemas."""
import json, sys, glob, jsonschema
ok = True
m = json.load(open('/verif/MANIFEST.json'))
try:
    jsonschema.validate(m, json.load(open('/root/.vp/MANIFEST.schema.json')))
    print('MANIFEST ok: %d checks, %d n/a' % (len(m['checks']), len(m.get('not_applicable', []))))
except Exception as e:
    ok = False; print('MANIFEST INVALID', e)
props = [json.loads(l)['id'] for l in open('/verif/properties.jsonl')]
claimed = [c['property_id'] for c in m['checks']]
na = [c['property_id'] for c in m.get('not_applicable', [])]
for p in props:
    if (p in claimed) == (p in na):
        ok = False; print('property', p, 'must be exactly one of claimed / not_applicable')
es = json.load(open('/root/.vp/EVIDENCE.schema.json'))
for f in sorted(glob.glob('/verif/evidence/*.json')):
    try:
        jsonschema.validate(json.load(open(f)), es)
    except Exception as e:
        ok = False; print('EVIDENCE INVALID', f, str(e)[:300])
print('ok' if ok else 'FAILED')
sys.exit(0 if ok else 1)
