#!/usr/bin/env python3
import json,sys
pid=sys.argv[1]; tag=sys.argv[2] if len(sys.argv)>2 else pid
extra=sys.argv[3] if len(sys.argv)>3 else ""
p=[json.loads(l) for l in open('/verif/properties.jsonl') if json.loads(l)['id']==pid][0]
wt=f"/tmp/mut/{tag}"
print(f"""You are helping to evaluate a verification effort for the Jujutsu VCS (jj-vcs/jj, Rust). Your job is to act as a realistic "bug author": produce ONE source change to jj that breaks the semantic property below while still compiling and passing the project's existing test suite.

## The property ({p['id']}: {p['title']})
Statement: {p['statement']}
Quantified over: {p['quantifier']['text']}
Why existing tests cannot settle it: {p['why_tests_cant']}
Code anchors: {json.dumps(p['anchors'])}

## Your scratch workspace
A git worktree of the repository has been created for you at {wt} (it is a checkout of the pinned commit). Work ONLY inside {wt}. Never touch /repo or /verif, never read anything under /verif, never commit. The sandbox has no network; use `cargo ... --offline`. To keep disk use down, export `CARGO_PROFILE_DEV_DEBUG=0 CARGO_PROFILE_TEST_DEBUG=0 CARGO_NET_OFFLINE=true` for every cargo command (shell env does not persist between commands, so prefix each command). Build output goes to {wt}/target (default). Other agents are using the machine at the same time, so pass `-j 6` to cargo builds.
(Some code is guarded by `#[cfg(jj_vcs_jj_verif)]`; that flag is off in normal builds — ignore those lines and do not touch or rely on them.)

## What to produce
1. A change to the jj sources (library and/or CLI; not tests) that makes the property false for some inputs / schedules / histories. It must be *realistic* — the kind of thing a well-meaning contributor could write (an "optimisation", a refactor that drops a case, a reordered pair of steps, an off-by-one in a boundary, a cache that is not invalidated, a missing sync/rename, etc.), not sabotage that is obviously wrong on reading, and not something ordinary use would expose at once. It should need something SPECIFIC to manifest: a particular interleaving of two processes, a crash or fault at a particular point, a multi-step sequence of operations, an unusual input/configuration, or two cooperating sites that each look fine alone. {extra}
2. The existing test suite must still pass with the change. While iterating, run only the relevant tests (e.g. `cargo test --offline -j 6 -p jj-lib --test runner <module>` or `-p jj-lib --lib <name>`, `-p jj-cli --test runner <module>`). When you are satisfied, run the full pinned suite ONCE with `/tmp/mut/tools/baseline.sh {wt}` (takes roughly 15-25 minutes; it prints `baseline stable_pass=3164 missing=N`; N must be 0; about 170 tests fail for sandbox reasons regardless and are not counted). If a baseline test breaks, adjust your change (do not edit existing tests) and re-run.
3. A demonstration: a NEW test file or small program (put new test code in a new file, e.g. {wt}/lib/tests/demo_{tag.lower()}.rs registered as needed, or a new test module — anything runnable with one command) that FAILS with your change and PASSES without it. Verify both directions yourself (use `git stash` / `git diff > patch` + `git apply -R` to toggle the source change while keeping the demo).

## Deliverables (write these files)
- {wt}/OUT/patch.diff : `git diff` of the source change ONLY (no demo, no test files), applicable with `git apply` at the repo root.
- {wt}/OUT/demo/ : the demonstration source (and a demo.diff if registering the demo needed edits to existing files such as a mod list), plus a README with the exact command to run it.
- {wt}/OUT/meta.json : {{"property": "{p['id']}", "summary": "<what the change does and why it breaks the property>", "needs": "<what specific interleaving / fault / sequence / input is required for it to manifest>", "ran": ["<each command you ran to validate, with its result>"], "baseline_missing": <N>}}

Finish by replying with a short report: the summary, what it needs to manifest, and the results of (a) demo with change, (b) demo without change, (c) baseline run. Do not delete the worktree or its target directory; leave the source change applied in the worktree.""")
