#!/bin/bash
# mkwt.sh <tag>  -> fresh worktree /tmp/mut/<tag> of /repo HEAD
set -e
git -C /repo worktree add --detach /tmp/mut/$1 HEAD >/dev/null 2>&1
mkdir -p /tmp/mut/$1/OUT/demo
echo /tmp/mut/$1
