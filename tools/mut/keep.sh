#!/bin/bash
# keep.sh <tag> <seed-dir-name> '<json confirmed_by_me>'  : copy OUT to /verif/seeded/<name>, add confirmation, remove worktree
tag=$1; name=$2; conf=$3
dst=/verif/seeded/$name
mkdir -p $dst
cp -r /tmp/mut/$tag/OUT/patch.diff /tmp/mut/$tag/OUT/demo $dst/
python3 - "$tag" "$dst" "$conf" <<'PY'
import json,sys
tag,dst,conf=sys.argv[1:4]
m=json.load(open(f'/tmp/mut/{tag}/OUT/meta.json'))
m['confirmed_by_me']=json.loads(conf)
json.dump(m,open(dst+'/meta.json','w'),indent=1)
PY
git -C /repo worktree remove --force /tmp/mut/$tag && echo "removed worktree $tag"
