#!/bin/bash
# confirm.sh <tag> <cargo test args...>  : demo with patch (expect fail), without (expect pass); baseline summary
tag=$1; shift
cd /tmp/mut/$tag || exit 2
export CARGO_PROFILE_DEV_DEBUG=0 CARGO_PROFILE_TEST_DEBUG=0 CARGO_NET_OFFLINE=true
echo "--- baseline log:"; grep -E "Summary" baseline.log | tail -1; 
echo "--- patch applies to /repo HEAD?"; git -C /repo apply --check /tmp/mut/$tag/OUT/patch.diff && echo yes
echo "--- WITH change:"; cargo test --offline -j 8 "$@" 2>&1 | grep -E "^test result|^test .*FAILED|panicked" | head -5
git apply -R OUT/patch.diff || { echo "cannot revert"; exit 2; }
echo "--- WITHOUT change:"; cargo test --offline -j 8 "$@" 2>&1 | grep -E "^test result|^test .*FAILED|panicked" | head -5
git apply OUT/patch.diff
