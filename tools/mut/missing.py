import json,sys,xml.etree.ElementTree as ET
base=set(json.load(open('/root/.vp/BASELINE.json'))['stable_pass'])
root=ET.parse(sys.argv[1]).getroot()
passed=set()
for ts in root.iter('testsuite'):
    for tc in ts.iter('testcase'):
        ok=not any(c.tag in('failure','error','skipped') for c in tc)
        if ok:
            passed.add(f"{ts.get('name')}::{tc.get('name')}"); passed.add(f"{tc.get('classname')}::{tc.get('name')}")
missing=sorted(b for b in base if b not in passed)
print("missing", len(missing), missing[:5])
