#!/bin/bash
# Runs the repository's pinned test suite in a worktree and compares the set of
# passing tests with the recorded baseline (3164 tests that must pass; ~170 others
# fail in this sandbox for environmental reasons and are ignored).
# Usage: baseline.sh <worktree-dir>      exit 0 = all baseline tests still pass
set -u
REPO="${1:?worktree dir}"
cd "$REPO" || exit 2
unset RUSTFLAGS
export CARGO_NET_OFFLINE=true CARGO_PROFILE_DEV_DEBUG=0 CARGO_PROFILE_TEST_DEBUG=0
LOG="$REPO/baseline.log"
cargo nextest run --workspace --no-fail-fast --tool-config-file pb:/w/lib/nextest.toml \
  --profile pb --test-threads 6 --offline > "$LOG" 2>&1
grep -E "Summary" "$LOG"
JUNIT="$REPO/target/nextest/pb/junit.xml"
python3 - "$JUNIT" <<'PY'
import json,sys,xml.etree.ElementTree as ET
base=set(json.load(open('/root/.vp/BASELINE.json'))['stable_pass'])
root=ET.parse(sys.argv[1]).getroot()
passed=set()
for ts in root.iter('testsuite'):
    for tc in ts.iter('testcase'):
        ok=not any(c.tag in('failure','error','skipped') for c in tc)
        if ok:
            passed.add(f"{ts.get('name')}::{tc.get('name')}")
            passed.add(f"{tc.get('classname')}::{tc.get('name')}")
missing=sorted(b for b in base if b not in passed)
print(f"baseline stable_pass={len(base)} missing={len(missing)}")
for m in missing[:40]: print("MISSING", m)
sys.exit(1 if missing else 0)
PY
