#!/usr/bin/env python3
"""Generates /verif/MANIFEST.json from the tables below (single source of truth)."""
import json, subprocess

PURE = "pure function of its input: no schedule, clock, fault, durable state or second party in the statement or the anchored code, so deterministic simulation has nothing to decide (DESIGN.md §4)"
NA = {
 "C01": PURE, "C02": PURE, "C04": PURE, "C05": PURE, "C08": PURE + "; its only internal scheduling is the tree merger's, covered by C07",
 "C09": PURE, "C12": PURE, "C19": PURE + "; the index-history dimension it shares with C18 is simulated there",
 "C20": PURE, "C28": PURE + "; the oracle is Git (differential testing, not simulation)", "C30": PURE, "C31": PURE, "C32": PURE,
 "C33": PURE, "C35": PURE, "C36": PURE, "C37": PURE, "C38": PURE, "C39": PURE, "C44": PURE,
}
PENDING = "engine not built yet (see DESIGN.md §10); not claimed until it passes the determinism and sensitivity bar"

# id -> (engine, category, technique, text, note, design_ref)
CHECKS = {
 "C14": ("reposim", "exploration", "deterministic simulation: seeded baton scheduler over op-heads list/add/remove, lock and persist primitives; crash, ineffective-lock, I/O-error and clock-skew faults; invariants after every event",
         "2-4 simulated jj processes (publishers, reconcilers/readers, stale starts at older operations) run the real load_at_head / resolve_op_heads / merge_operations / Transaction::write+publish on a tmpfs repository; the seeded scheduler owns every interleaving at the store's read/add/remove steps, lock grants (working or ineffective), crashes between any two steps and injected ENOSPC. After EVERY event the harness lists heads/ and checks: at least one head; every operation ever listed as a head is an ancestor of a current head; every reachable operation is readable. At quiescence a fresh load must succeed and leave exactly one head descending from all published operations. Sampling of schedules, not proof.",
         "Trusts: readdir/create/unlink/rename atomic; hooks sit inside the primitives; std HashMap order is owned by the harness through the getrandom seam (determinism sweep: tools/determinism.sh).",
         "§3.1, §4 C14"),
 "C13": ("reposim", "exploration", "deterministic simulation of concurrent transactions + intent model: seeded schedules, crashes, stale starts; history check at quiescence",
         "Same engine; 2-4 processes publish transactions with generated commit creations, rewrites, abandons, divergent rewrites, bookmark/tag/workspace edits from the same and from older operations (criss-cross arises naturally), reconciled by whoever loads next in every order the seed produces. Oracle at quiescence from the recorded intents: created changes visible; rewritten/abandoned commits hidden (except below recorded or reconcile-induced divergence); refs changed along one line of operations hold the last value; sibling concurrent changes are identical, conflicted with both sides, or a fast-forward - never a silent drop; no invented values.",
         "Oracle is deliberately silent where jj's answer legitimately depends on merge order (targets abandoned/rewritten/rebased by another side, divergent changes); probes in the evidence count how often each rule applied.",
         "§3.1, §4 C13"),
 "C10": ("reposim", "exploration", "deterministic simulation; monitor on every view a simulated process loads or commits",
         "Monitor over the same simulated histories: on every repository a process loads (including reconcile merges), commits, rebuilds, and on the final one, heads are pairwise non-ancestors, root is a head only alone, and every add-term of every local bookmark and every working-copy commit is an ancestor of a head - judged against the commit graph read straight from the backend.",
         "The backend's commit objects are the ground truth for ancestry (C17 checks them separately).",
         "§4 C10"),
 "C11": ("reposim", "exploration", "deterministic simulation; monitor after each transaction's rebase_descendants with drawn options",
         "After every generated transaction's rebase_descendants_with_options (all EmptyBehavior values, delete_abandoned_bookmarks, simplify_ancestor_merge; chains of rewrites, rewrite-then-abandon, divergent rewrites): no visible commit descends from a rewritten/abandoned one (outside recorded divergence), rebased commits keep change id and description and list their predecessor, no bookmark or working copy is left on a rewritten commit, no unrecorded duplicate change ids.",
         "Transactions are built through the public MutableRepo API; two genuine defects found this way were repaired (known_findings.jsonl: fixed).",
         "§4 C11"),
 "C16": ("reposim", "exploration", "deterministic simulation; cross-process read-back monitor",
         "Every operation and view any simulated process writes is read back from disk by other processes through fresh stores and must equal the written value field for field (conflicted/absent targets arise from concurrent merges). Only the storage/multi-process part of C16 is claimed; hashing of arbitrary values is a pure function and not decided here.",
         "Values are those the workload generates: local bookmarks/tags, workspaces, conflicted targets from concurrent merges, and a view-fuzz mutation (remote bookmarks and remote tags in both tracking states with normal/absent/conflicted targets, git refs, git heads). Over each run's population the id must be a function of the value and different values must have different ids.",
         "§4 C16"),
 "C17": ("reposim", "exploration", "deterministic simulation; cross-process read-back monitor on simple and Git backends",
         "Every commit written by any process is recorded exactly as write_commit returned it (sub-second and negative timestamps, odd tz offsets, unicode/empty names drawn by the workload) and re-read by every other process that loads a repo containing it through a fresh Store, on the simple backend and (half of the runs) the Git backend whose change ids live in the concurrently written extras table. One genuine defect (author sub-second timestamp) found and repaired.",
         "Files/trees are read back only as part of tree reads; copy ids and signatures are not generated.",
         "§4 C17"),
 "C18": ("reposim", "exploration", "deterministic simulation; index-vs-graph monitor",
         "On every repository any process loads (after write_index, reload from disk, merge of concurrent operations' indexes, forced rebuild) has_id for all visible commits, is_ancestor for all pairs, heads and common_ancestors of drawn subsets and change-id resolution are compared with the graph read from the backend (graphs up to 70 commits).",
         "Generation numbers are not exposed by the Index trait and are not compared.",
         "§4 C18"),
 "C22": ("reposim", "exploration", "deterministic simulation of concurrent transactions; changed-path index built incrementally, rebuilt with drawn max_commits and merged from concurrent operations; monitor on every loaded repository + indexed/un-indexed files() comparison at quiescence",
         "Same engine with the changed-path index enabled from the start (built with max_commits 1000/1/2) and rebuilt by reindex commands (max_commits 1/3/10/1000) between concurrent transactions that write nested paths, deletions, same-content edits, one-line edits of shared five-line files, merge commits taking the automatic merge of their parents, and 'diamond' merges whose parents merge at the content level or conflict. On every repository any process loads or commits, for every visible commit the index has paths for: the recorded paths (no duplicates) must equal the paths of diff(merge_commit_trees(parents), commit tree). At quiescence files(path) for every path/prefix of the universe is evaluated on the indexed repository and on a copy whose index was emptied and rebuilt without changed paths; the commit sets must be equal. One known finding (inherited unresolvable conflict in a merge commit) is recognised narrowly and reported as KNOWN-FINDING.",
         "Paths come from a universe of 9 files in 3 directories; copy records are not generated; the un-indexed reference for per-commit paths is jj's own tree diff and merge_commit_trees.",
         "§4 C22"),
 "C46": ("reposim", "exploration", "deterministic simulation of concurrent transactions with rewrite chains, squashes, splits, divergent rewrites, op-restore transactions and reconcile merges; evolution walk checked against the recorded rewrite relation at quiescence",
         "Same engine; transactions rewrite commits (also repeatedly within one transaction), squash two commits into one (two predecessors, preferring pairs that share an evolution ancestor), split (second commit with a new change id and the same predecessor), rewrite divergently, abandon, and - in half of the C46 runs - replace the whole view by an older operation's (op restore); jj's own reconcile merges rebase descendants concurrently. At quiescence, for every visible commit (up to 40) walk_predecessors must terminate within a bound without error, start with the commit, list no commit twice, list every commit that published transactions (model) or the commit objects' predecessor fields (covers jj's own reconcile rewrites) say it was rewritten from, list nothing else, and list each commit after every commit rewritten from it. One known finding (commits made by the unpublished virtual-base merge of a criss-cross operation merge) is recognised narrowly.",
         "The op-restore transactions are generated only in C46 runs (the C13 intent model cannot follow them). Predecessor cycles cannot arise with content-hashed ids and distinct timestamps, so CycleDetected is only checked as 'no error'.",
         "§4 C46"),
 "C23": ("wcsim", "exploration", "deterministic simulation of the working copy under a simulated coarse file-system clock (hook H3), seeded user-edit / jj-operation histories; oracle: snapshot tree == disk read by the harness",
         "Seeded histories of user edits (write, same-size rewrite, delete, chmod, symlink, file<->directory swap, touch) interleaved with the real TreeState::snapshot / check_out / set_sparse_patterns / reload on tmpfs; after every snapshot the recorded tree must equal what the harness itself reads from disk (content after EOL normalisation, exec bit, symlink target, vanished paths, ignored-but-tracked rule), path by path. The clock advances only when the chooser says so, so clean-by-mtime and must-re-read paths both occur. One genuine defect found and repaired (directory with conflicted content replaced by a file).",
         "Ignore patterns are limited to anchored literal names with or without a trailing slash, in the root ignore file and a nested d/.gitignore that the user rewrites and deletes; the model reads the ignore files from disk as jj does. Tracked files below ignored directories, file->directory and file->fifo swaps at arbitrary paths are generated. One simulated process.",
         "§3.4, §4 C23"),
 "C24": ("wcsim", "exploration", "deterministic simulation of the working copy under a simulated coarse file-system clock (hook H3), seeded user-edit / jj-operation histories; oracle: disk == materialised tree, immediate snapshot identity, switch == fresh checkout",
         "After every check_out of a generated tree (files, executables, symlinks, 3- and 5-term conflicts, file/directory replacement) the disk within the sparse patterns must equal the materialised tree (jj's own pure conflict materialiser as reference), an immediate snapshot in the same or next tick (with and without reloading the state) must return the identical tree ids, and the disk must equal a fresh checkout of the same tree into an empty workspace.",
         "Conflict marker bytes come from jj's materialize_merge_result_to_bytes (trusted pure function, C05).",
         "§4 C24"),
 "C25": ("wcsim", "exploration", "deterministic simulation of the working copy under a simulated coarse file-system clock (hook H3), seeded user-edit / jj-operation histories; obstacle injection before checkouts",
         "Before checkouts the simulated user drops untracked files exactly where the new tree adds a file, ignored files elsewhere, and a symlink to a directory outside the workspace where the tree adds a directory; afterwards obstacles must be byte-identical, a skipped path must be reported, nothing may appear outside the workspace, and every path the update does not touch must be unchanged.",
         "Obstacle kinds are the three above; leftover empty directories are recognised as obstacles.",
         "§4 C25"),
 "C26": ("wcsim", "exploration", "deterministic simulation of the working copy under a simulated coarse file-system clock (hook H3), seeded user-edit / jj-operation histories; same-size edits placed in the tick of the state-file save",
         "Same-size in-place rewrites of tracked files are placed after jj saved its state with the file's tick, the state file's tick and the edit's tick forced equal (coarse clock) or ordered; the next snapshot (with or without reload) must record the new content. Catches weakening of the mtime < own_mtime rule (sensitivity/c26_clean_check_le.diff).",
         "Only edits made after the save are asserted (an edit between jj's stat and its save cannot be detected by any timestamp scheme once the clock ticks in between). Clock faults: same tick as the state file, future-dated writes (file mtime later than the state file's) and same-size rewrites that keep the previous mtime when that is not older than the state file's; with and without reloading the tree state between operations.",
         "§4 C26"),
 "C27": ("wcsim", "exploration", "deterministic simulation of the working copy under a simulated coarse file-system clock (hook H3), seeded user-edit / jj-operation histories; sparse-pattern changes interleaved with edits and snapshots",
         "After each set_sparse_patterns the disk gains exactly the tree's files entering the patterns and loses those leaving, the working-copy tree ids stay identical, and later snapshots never change the tree value of a path outside the patterns.",
         "The simulated user does not touch paths outside the patterns.",
         "§4 C27"),
 "C06": ("wcsim", "exploration", "deterministic simulation of the working copy under a simulated coarse file-system clock (hook H3), seeded user-edit / jj-operation histories; conflicted files forced to be re-read (same tick / touch)",
         "Trees with 3- and 5-term file conflicts (redundant pairs, absent sides, exec differences) are checked out; with the clock forcing a re-read (same tick as the state file, or a touch) the snapshot must record the identical conflict value, unsimplified arity included (modulo jj's deliberate simplification of the merge of whole trees).",
         "Second clause: the simulated user edits the first line of a materialised conflict file (outside every conflict hunk, same size or not); the expected value is built with jj's pure Merge helpers (simplify / update_from_simplified / with_new_file_ids): the edit lands on every term of the simplified conflict and is written back to the surviving positions. Conflicts with an absent side have no resolved region and are only checked unedited.",
         "§4 C06"),
 "C29": ("wcsim", "exploration", "deterministic simulation of the working copy under a simulated coarse file-system clock (hook H3), seeded user-edit / jj-operation histories; EOL mode swarm",
         "Under none / input / input-output conversion, text with LF, CRLF, missing final newline and binary content (NUL, lone CR) is written by the user and by checkouts; snapshots must store the normalised bytes and checkouts must write CRLF only for text under input-output, byte-identical otherwise (model mirrors eol.rs below the 8 KiB probe).",
         "Includes contents of 8188-8200 bytes with CRLF, lone CR, NUL, LF or a trailing CR placed around the 8 KiB binary-probe boundary; the model mirrors the documented probe (first 8 KiB, a CR in the last probed byte is not counted).",
         "§4 C29"),
 "C15": ("crashsim", "fault_enumeration", "fault enumeration: real SIGKILL from a ptrace supervisor at the entry of every file-system-mutating syscall (plus torn writes) of the real jj binary, recovery oracle in fresh processes",
         "For each command of each seeded workload (new, describe, commit, squash, abandon, bookmark set, edit, undo, restore, rebase, workspace add, duplicate, op restore, util gc, sparse set, split, debug reindex; git, colocated-git and simple backends) the unguarded jj binary is re-executed from a snapshot of the directory and killed at the k-th mutating syscall, for every k (thorough) or for all publication-critical k plus a seeded sample (quick). After each kill fresh processes check: op log loads (R1), no earlier operation lost (R2), head is the old one or one the command publishes (R3), every object reachable from every logged operation loads through jj-lib and git fsck is clean (R4), workspace update-stale + status succeed and every file content on disk before the command is on disk or in a recorded working-copy commit (R5).",
         "Process-kill model only (no power loss / lost page cache). Kill points of one execution are enumerated completely; workloads are sampled by seed. Residual nondeterminism of the tracee can cost replay exactness, never a false alarm (any kill instant is a legal crash).",
         "§3.3, §4 C15"),
 "C07": ("tasksim", "exploration", "deterministic simulation of the tree merger's task scheduler: backend futures completed in seeded order, drawn concurrency limit, injected read errors; compared with the sequential schedule and the path-wise definition",
         "merge_trees keeps up to store.concurrency() backend futures in a FuturesUnordered. The harness wraps the real SimpleBackend so that every read/write future stays pending for a seeded number of polls (completion order owned by the seed), draws the concurrency limit from {1,2,3,10} and fails reads. For 3-, 5- and 7-way merges of generated trees (files, executables, symlinks, nested dirs, file/dir replacement) it requires: same result as the sequential schedule; every path's value equals the merge of that path's entries on their own (trivial rule, else resolve_file_values); trivial whole-tree merges taken; conflict-free iff no path conflicts; a failed read yields Err, and a retry yields the reference tree.",
         "resolve_file_values is the per-path reference for non-trivial file merges (C04 is pure and not claimed).",
         "§3.7, §4 C07"),
 "C03": ("hashsim", "exploration", "deterministic simulation of the diff's random hash seed: RandomState keys owned by the harness (getrandom seam), weak-hash fault (hook H4)",
         "Every generated input list is diffed with each tokenizer/comparison under three RandomState seeds (fresh threads) and once with the word hash truncated to 8 bits, so collisions are common. On every run: concatenated hunk slices reproduce each input, hunk_ranges agree with hunks, matching hunks are equal under the chosen comparison, no hunk is empty on every side, kinds alternate; across runs: identical hunks (the statement's 'same on every run').",
         "Only the seed/collision dimension is a simulation target; exhaustive input coverage is not claimed. Inputs are small edited texts (up to ~12 lines) and, in one run of twelve, two blocks of 60-300 unique lines swapped or interleaved, so that hundreds of shared tokens compete as LCS anchors.",
         "§3.8, §4 C03"),
 "C43": ("configsim", "exploration", "deterministic simulation of copy/move/delete histories and hostile config-id files against the real SecureConfig, crash states of generate_config, seeded RNG",
         "Histories over up to 5 repository directories sharing one per-user config root: create, load, edit through the returned path, recursive copy, move, delete, plant malformed config-id contents (wrong length, non-hex, ../, absolute, trailing newline, non-UTF-8), plant legacy configs, orphan partial config dirs (crash between generate_config's steps). After every load: the config file is <root>/<20 hex>/config.toml; malformed ids are rejected without writing anything; a copy of a repo that still exists where jj last loaded it gets a different id with the original's content and leaves the original's file untouched; an unmoved repo keeps its id and content; two repos loaded where they are never share an id; nothing outside the root changes.",
         "Read-only copies cannot be simulated as root. Move+copy ambiguity (jj cannot tell which directory is the original once it moved) is deliberately not judged.",
         "§3.9, §4 C43"),
 "C34": ("gitsim", "exploration", "deterministic simulation of two parties (jj transactions, external git ref/commit writes through gix) scheduled at operation granularity, three-value (jj / git / base) reference model",
         "Seeded interleavings of jj bookmark set/delete, external git branch create/move/delete (also onto commits made by git alone), standalone import, standalone export and sync (import; export; second import) on one Git-backed repository. Oracle per bookmark from the base both sides last agreed on: an untouched side is never changed, a one-sided change is propagated, identical changes are kept, different changes yield a conflict containing both values (or the fast-forward), export never overwrites a git ref that moved behind jj's back, after a sync every non-conflicted bookmark equals its git ref and conflicted ones leave the ref alone, and a second import leaves the view identical.",
         "Flat bookmark names only; with abandon-unreachable-commits only convergence and idempotence are asserted; the second party writes through gix rather than a git process.",
         "§3.6, §4 C34"),
 "C45": ("pushsim", "exploration", "deterministic simulation of two parties on a bare remote through the real jj binary and system git, party scheduling at operation granularity, remote refs read before/after every push",
         "Seeded histories of jj bookmark create/move/delete, jj git push (--bookmark / --all / --deleted), emulated fetch, and another clone's fast-forward, forced and deleting pushes. After every jj push, per bookmark: if the remote branch was not where jj last recorded it, it must be exactly where the other clone left it and jj's record and local bookmark must be unchanged; branches not part of the push never move; otherwise the remote ends at the pushed target (or stays) and jj's record follows.",
         "jj git fetch is emulated with git fetch + jj git import (system git 2.39 lacks fetch --porcelain). Operation granularity suffices because the lease expectation comes from the view loaded before the push and the compare-and-swap is git's.",
         "§3.6, §4 C45"),
 "C40": ("clisim", "exploration", "deterministic simulation of command histories through the real jj binary: seeded commands, file edits, commands at older operations, stale workspaces; observation through jj-lib; disk-state bookkeeping per command",
         "Seeded histories of 8-18 real jj commands (new [--insert-before/--insert-after], describe, commit, squash [--from/--into], abandon, rebase -r/-s/-b, edit, duplicate, metaedit, parallelize, simplify-parents, split <file>, absorb, file chmod, restore [--from/--into], bookmark set/delete, tag set, undo/redo, op restore, workspace add/update-stale, --at-op commands that create divergent operations, --ignore-working-copy commands) in one repository with up to two workspaces, interleaved with user edits. For every command that snapshots and succeeds in a workspace that has a working-copy commit, every file content on disk when it started must afterwards be in a working-copy commit of that workspace recorded by some operation in the log, whether or not it is still on disk; for a command that failed (refused as stale, bad revision, immutable target) it may instead still be on disk (materialized conflict files count as recorded when the path holds the conflict).",
         "Only small, non-ignored files are generated; interactive commands (diffedit, resolve, split -i) are not in the mix; process kills inside a command are C15's subject.",
         "§3.5, §4 C40"),
 "C41": ("clisim", "exploration", "deterministic simulation of command histories through the real jj binary: seeded commands, file edits, commands at older operations, stale workspaces; observation through jj-lib; undo stack judged against the operation DAG",
         "Same histories; after `op restore X` the heads, local bookmarks, tags and working-copy pointers equal those of X's view; after the j-th consecutive undo they equal those of the j-th ancestor of the operation that was the head when the undos began; redo walks back. Undo/redo sequences are kept inside the current run of plain successful commands of the default workspace, where the documented stack is unambiguous. immutable_heads() = none() in these runs, so the permitted difference never arises.",
         "`op revert @` (the latest operation) is judged like an undo of it; op revert of older operations (a three-way view merge without equality oracle) is not judged; no file edits directly before undo/redo/op restore/op revert.",
         "§4 C41"),
 "C42": ("clisim", "exploration", "deterministic simulation of command histories through the real jj binary: seeded commands, file edits, commands at older operations, stale workspaces; observation through jj-lib; immutable set evaluated before, visibility after each rewriting command",
         "Histories start with protected history (bookmark trunk, sometimes tag v0; revset-aliases.immutable_heads() drawn per run from present(trunk) | tags(), tags() alone, present(trunk) alone) and aim half of their revision arguments at protected commits. Before each judged command (describe, abandon, rebase -r/-s/-b, squash [--from/--into], edit, new [--insert-before/--insert-after], commit, restore [--from/--into], duplicate, metaedit, parallelize, simplify-parents, split <file>, absorb, file chmod) the harness computes the ancestors of trunk/tags through jj-lib; afterwards every one of those commit ids must still be visible. Commands that move the bookmark or a tag themselves, operation-log commands and --at-op commands are not judged.",
         "Visibility of the same commit id is the criterion (a rewritten commit gets a new id); --ignore-immutable is never passed.",
         "§4 C42"),
 "C21": ("tablesim", "exploration", "deterministic simulation: seeded baton scheduler over the table store's file-system primitives, crash and ineffective-lock faults, key/value reference model",
         "Seeded search over interleavings of 2-4 simulated processes (lock-less saves, locked saves, readers with reload) at the real TableStore's list/load/persist/add-head/remove-head/lock steps on tmpfs, with process crashes and ineffective locks; oracle is a map of completed saves (every completed save's entries present, later sequential save wins, heads never empty, reload does not change lookups). Sampling, not proof: the right level because the property quantifies over schedules the suite cannot control.",
         "Trusts: atomicity of readdir/create/unlink/rename as single steps; the hook points sit inside the primitives; HashMap order does not reach the event log (checked by the determinism sweep). Three known findings (known_findings.jsonl) are reported as KNOWN-FINDING and not as violations.",
         "§3.2, §4 C21"),
}

ENGINES = {
 "clisim": ("sim/src/engines/clisim.rs", "command histories through the real jj binary with workspaces, older-operation commands and edits"),
 "gitsim": ("sim/src/engines/gitsim.rs", "jj import/export vs. an external git party on one Git repository"),
 "pushsim": ("sim/src/engines/pushsim.rs", "jj git push vs. another clone on a bare remote (real binaries)"),
 "tasksim": ("sim/src/engines/tasksim.rs", "tree merger under a seeded completion order of backend futures"),
 "hashsim": ("sim/src/engines/hashsim.rs", "content diff under harness-owned RandomState seeds and a weak hash"),
 "configsim": ("sim/src/engines/configsim.rs", "secure per-repo config under copy/move/delete histories and hostile ids"),
 "crashsim": ("sim/src/engines/crashsim.rs + sim/src/ptrace.rs", "ptrace supervisor killing the real jj binary at every write syscall + recovery oracle"),
 "wcsim": ("sim/src/engines/wcsim.rs", "working copy vs. an editing user under a simulated coarse file-system clock"),
 "reposim": ("sim/src/engines/reposim.rs", "concurrent jj processes on one repository: baton scheduler at file-system primitives + crash / I/O error / lock / clock faults + model-based monitors"),
 "tablesim": ("sim/src/engines/tablesim.rs", "stacked tables under concurrent writers: baton scheduler + crash/lock faults"),
}

def main():
    props = [json.loads(l) for l in open('/verif/properties.jsonl')]
    try:
        hook_commits = subprocess.check_output(
            ["git", "-C", "/repo", "log", "--format=%H %s", "--grep=^verif:"], text=True).strip().splitlines()
    except Exception:
        hook_commits = []
    checks = []
    for pid, (engine, cat, tech, text, note, ref) in sorted(CHECKS.items()):
        checks.append({
            "property_id": pid,
            "quick_cmd": f"./check {pid} quick",
            "thorough_cmd": f"./check {pid} thorough",
            "evidence_file": f"/verif/evidence/{pid}.json",
            "replay_cmd_template": f"./check {pid} --replay {{path}}",
            "engine": engine,
            "level_claimed": {"category": cat, "text": text, "design_ref": ref},
            "level_note": note,
            "technique": tech,
        })
    na = []
    for p in props:
        if p["id"] in CHECKS:
            continue
        na.append({"property_id": p["id"], "reason": NA.get(p["id"], PENDING)})
    engines = []
    for name, (path, kind) in ENGINES.items():
        engines.append({"name": name, "path": path, "kind_free_text": kind,
                        "serves_properties": sorted(k for k, v in CHECKS.items() if v[0] == name)})
    m = {
        "version": 1,
        "setup_cmd": "./check --build",
        "hooks": {
            "guard": "jj_vcs_jj_verif",
            "enable": "RUSTFLAGS=--cfg jj_vcs_jj_verif, set only by /verif/sim/.cargo/config.toml (the jj binary used by CLI-level engines is built unguarded)",
            "baseline_off_cmd": "/verif/tools/baseline.sh /repo",
            "source_commits": [c.split()[0] for c in hook_commits],
            "add_only": True,
        },
        "engines": engines,
        "checks": checks,
        "not_applicable": na,
        "notes": "Technique family: deterministic simulation with fault injection. One driver (./check), one binary (sim/ -> target/release/jjsim); VERIF_SEED and VERIF_TIER are honoured. Exit 0 held / 1 VIOLATION / 2 harness error. Known findings: known_findings.jsonl.",
    }
    json.dump(m, open('/verif/MANIFEST.json', 'w'), indent=1)
    print("wrote MANIFEST.json:", len(checks), "checks,", len(na), "n/a")

main()
