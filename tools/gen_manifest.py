#!/usr/bin/env python3
"""Generates /verif/MANIFEST.json from the tables below (single source of truth)."""
import json, subprocess

PURE = "pure function of its input: no schedule, clock, fault, durable state or second party in the statement or the anchored code, so deterministic simulation has nothing to decide (DESIGN.md §4)"
NA = {
 "C01": PURE, "C02": PURE, "C04": PURE, "C05": PURE, "C08": PURE + "; its only internal scheduling is the tree merger's, covered by C07",
 "C09": PURE, "C12": PURE, "C19": PURE + "; the index-history dimension it shares with C18 is simulated there",
 "C20": PURE, "C28": PURE + "; the oracle is Git (differential testing, not simulation)", "C30": PURE, "C31": PURE, "C32": PURE,
 "C33": PURE, "C35": PURE, "C36": PURE, "C37": PURE, "C38": PURE, "C39": PURE, "C44": PURE,
}
PENDING = "engine not built yet (see DESIGN.md §10); not claimed until it passes the determinism and sensitivity bar"

# id -> (engine, category, technique, text, note, design_ref)
CHECKS = {
 "C21": ("tablesim", "exploration", "deterministic simulation: seeded baton scheduler over the table store's file-system primitives, crash and ineffective-lock faults, key/value reference model",
         "Seeded search over interleavings of 2-4 simulated processes (lock-less saves, locked saves, readers with reload) at the real TableStore's list/load/persist/add-head/remove-head/lock steps on tmpfs, with process crashes and ineffective locks; oracle is a map of completed saves (every completed save's entries present, later sequential save wins, heads never empty, reload does not change lookups). Sampling, not proof: the right level because the property quantifies over schedules the suite cannot control.",
         "Trusts: atomicity of readdir/create/unlink/rename as single steps; the hook points sit inside the primitives; HashMap order does not reach the event log (checked by the determinism sweep). Three known findings (known_findings.jsonl) are reported as KNOWN-FINDING and not as violations.",
         "§3.2, §4 C21"),
}

ENGINES = {
 "tablesim": ("sim/src/engines/tablesim.rs", "stacked tables under concurrent writers: baton scheduler + crash/lock faults"),
}

def main():
    props = [json.loads(l) for l in open('/verif/properties.jsonl')]
    try:
        hook_commits = subprocess.check_output(
            ["git", "-C", "/repo", "log", "--format=%H %s", "--grep=^verif:"], text=True).strip().splitlines()
    except Exception:
        hook_commits = []
    checks = []
    for pid, (engine, cat, tech, text, note, ref) in sorted(CHECKS.items()):
        checks.append({
            "property_id": pid,
            "quick_cmd": f"./check {pid} quick",
            "thorough_cmd": f"./check {pid} thorough",
            "evidence_file": f"/verif/evidence/{pid}.json",
            "replay_cmd_template": f"./check {pid} --replay {{path}}",
            "engine": engine,
            "level_claimed": {"category": cat, "text": text, "design_ref": ref},
            "level_note": note,
            "technique": tech,
        })
    na = []
    for p in props:
        if p["id"] in CHECKS:
            continue
        na.append({"property_id": p["id"], "reason": NA.get(p["id"], PENDING)})
    engines = []
    for name, (path, kind) in ENGINES.items():
        engines.append({"name": name, "path": path, "kind_free_text": kind,
                        "serves_properties": sorted(k for k, v in CHECKS.items() if v[0] == name)})
    m = {
        "version": 1,
        "setup_cmd": "./check --build",
        "hooks": {
            "guard": "jj_vcs_jj_verif",
            "enable": "RUSTFLAGS=--cfg jj_vcs_jj_verif, set only by /verif/sim/.cargo/config.toml (the jj binary used by CLI-level engines is built unguarded)",
            "baseline_off_cmd": "/verif/tools/baseline.sh /repo",
            "source_commits": [c.split()[0] for c in hook_commits],
            "add_only": True,
        },
        "engines": engines,
        "checks": checks,
        "not_applicable": na,
        "notes": "Technique family: deterministic simulation with fault injection. One driver (./check), one binary (sim/ -> target/release/jjsim); VERIF_SEED and VERIF_TIER are honoured. Exit 0 held / 1 VIOLATION / 2 harness error. Known findings: known_findings.jsonl.",
    }
    json.dump(m, open('/verif/MANIFEST.json', 'w'), indent=1)
    print("wrote MANIFEST.json:", len(checks), "checks,", len(na), "n/a")

main()
