#!/bin/bash
# Runs the repository's pinned test suite with the verification guard OFF and
# compares the set of passing tests with /root/.vp/BASELINE.json (stable_pass).
# Usage: tools/baseline.sh [repo-dir]   (default /repo)
set -u
REPO="${1:-/repo}"
cd "$REPO" || exit 2
unset RUSTFLAGS
export CARGO_NET_OFFLINE=true
cargo nextest run --workspace --no-fail-fast --tool-config-file pb:/w/lib/nextest.toml \
  --profile pb --test-threads 8 --offline > /tmp/verif-baseline.log 2>&1
grep -E "Summary" /tmp/verif-baseline.log
JUNIT="$REPO/target/nextest/pb/junit.xml"
python3 - "$JUNIT" <<'PY'
import json,sys,xml.etree.ElementTree as ET
base=set(json.load(open('/root/.vp/BASELINE.json'))['stable_pass'])
root=ET.parse(sys.argv[1]).getroot()
passed=set()
for ts in root.iter('testsuite'):
    for tc in ts.iter('testcase'):
        ok=not any(c.tag in('failure','error','skipped') for c in tc)
        name=f"{ts.get('name')}::{tc.get('name')}"
        # BASELINE names look like "jj-cli::commands::...": binary id with '::' then test name
        if ok: passed.add(name)
def norm(n): return n
missing=sorted(b for b in base if b not in passed)
if missing:
    # try alternative naming (classname)
    passed2=set()
    for ts in root.iter('testsuite'):
        for tc in ts.iter('testcase'):
            ok=not any(c.tag in('failure','error','skipped') for c in tc)
            if ok: passed2.add(f"{tc.get('classname')}::{tc.get('name')}")
    missing=sorted(b for b in base if b not in passed and b not in passed2)
print(f"baseline stable_pass={len(base)} passed_now={len(passed)} missing={len(missing)}")
for m in missing[:40]: print("MISSING", m)
sys.exit(1 if missing else 0)
PY
