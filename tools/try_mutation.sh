#!/bin/bash
# usage: tools/try_mutation.sh <patch.diff> <PROP> [<PROP>...]   (env TIER=quick|thorough, MAXS=seconds)
# Applies the patch to /repo, runs the named checks, reverts the patch.
set -u
PATCH="$1"; shift
cd /repo || exit 2
git apply --check "$PATCH" || { echo "patch does not apply"; exit 2; }
git apply "$PATCH"
trap 'cd /repo && git apply -R "$PATCH" && echo "[reverted $PATCH]"' EXIT
for P in "$@"; do
  echo "=== $P with $(basename $(dirname $(dirname $PATCH)))/$(basename $PATCH)"
  ( cd /verif && RUST_BACKTRACE=0 JJSIM_QUIET_PANICS=1 VERIF_NO_EVIDENCE=1 ./check "$P" "${TIER:-quick}" 2>&1 | grep -E "^(VIOLATION|KNOWN-FINDING|done|HARNESS|  (invariant|rule))" | cut -c1-400 | head -${LINES_MAX:-8} )
done
