#!/usr/bin/env python3
"""Shows, per (property, invariant), the shortest replay's notes."""
import json,glob,sys
pat=sys.argv[1] if len(sys.argv)>1 else '*'
full=len(sys.argv)>2
best={}
for f in glob.glob(f'/verif/replays/{pat}.json'):
    d=json.load(open(f))
    k=(d['property'],d['invariant'])
    if k not in best or len(d['choices'])<len(best[k][1]['choices']): best[k]=(f,d)
for k,(f,d) in sorted(best.items()):
    print('=====',k,f); print(d['config'], len(d['choices'])); print(d['message'])
    for l in d['trace']:
        if full or 'note:' in l or 'PANIC' in l or 'FAULT' in l: print('  ',l[:230])
