#!/bin/bash
# Determinism proof: every run is re-executed in a second process and the full
# event logs are diffed byte for byte (scratch-dir pid normalised).
# usage: tools/determinism.sh <engine> <PROP> <runs> [procs]
set -u
ENGINE="$1"; PROP="$2"; RUNS="${3:-2000}"; PROCS="${4:-16}"
BIN=/verif/target/release/jjsim
OUT=$(mktemp -d /dev/shm/jjdet.XXXXXX)
per=$(( (RUNS + PROCS - 1) / PROCS ))
for pass in a b; do
  for ((i=0;i<PROCS;i++)); do
    from=$((i*per)); to=$((from+per)); [ $to -gt $RUNS ] && to=$RUNS
    [ $from -ge $to ] && continue
    ( RUST_BACKTRACE=0 JJSIM_QUIET_PANICS=1 $BIN trace "$ENGINE" "$PROP" --seed "${VERIF_SEED:-1}" --from $from --to $to 2>/dev/null \
        | sed -E 's/jjverif-[0-9]+/jjverif-PID/g' > "$OUT/$pass.$i" ) &
  done
  wait
done
bad=0
for ((i=0;i<PROCS;i++)); do
  [ -f "$OUT/a.$i" ] || continue
  if ! cmp -s "$OUT/a.$i" "$OUT/b.$i"; then bad=$((bad+1)); diff "$OUT/a.$i" "$OUT/b.$i" | head -20; fi
done
lines=$(cat "$OUT"/a.* | wc -l)
rm -rf "$OUT"
echo "determinism engine=$ENGINE prop=$PROP runs=$RUNS x2 procs=$PROCS log_lines=$lines divergent_chunks=$bad"
[ $bad -eq 0 ]
